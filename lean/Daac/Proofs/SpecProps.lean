/-
The executable specification functions of `Daac/Spec.lean` satisfy the declarative restatements
of the English properties. Core Lean only.
-/
import Daac.Spec
import Daac.Proofs.Lsuf
namespace Daac
variable {V : Type}

/-! ## Generalities -/

theorem pat_eq_of_key_eq {P : List (Pat V)} (hnd : (P.map (·.key)).Nodup) {p q : Pat V}
    (hp : p ∈ P) (hq : q ∈ P) (h : p.key = q.key) : p = q := by
  induction P with
  | nil => simp at hp
  | cons a P ih =>
    simp only [List.map_cons, List.nodup_cons, List.mem_map, not_exists, not_and] at hnd
    rcases List.mem_cons.1 hp with rfl | hp' <;> rcases List.mem_cons.1 hq with rfl | hq'
    · rfl
    · exact absurd h.symm (hnd.1 q hq')
    · exact absurd h (hnd.1 p hp')
    · exact ih hnd.2 hp' hq'

theorem ValidPats.key_ne {P : List (Pat V)} (hv : ValidPats P) : ∀ p ∈ P, p.key ≠ [] := hv.2.1
theorem ValidPats.nodup {P : List (Pat V)} (hv : ValidPats P) : (P.map (·.key)).Nodup := hv.2.2

/-- `p` occurs in `h` at byte offset `s`. -/
def OccPat (h : List Nat) (p : Pat V) (s : Nat) : Prop :=
  s + p.key.length ≤ h.length ∧ (h.take (s + p.key.length)).drop s = p.key

theorem isOcc_iff_occPat {P : List (Pat V)} {h : List Nat} {m : Match V} :
    IsOcc P h m ↔ ∃ p ∈ P, p.value = m.value ∧ m.start + p.key.length = m.stop ∧
      OccPat h p m.start := by
  unfold IsOcc OccPat
  constructor
  · rintro ⟨p, hp, hv, hl, hle, hk⟩
    exact ⟨p, hp, hv, hl, by omega, by rw [hl]; exact hk⟩
  · rintro ⟨p, hp, hv, hl, hle, hk⟩
    exact ⟨p, hp, hv, hl, by omega, by rw [hl] at hk; exact hk⟩

/-- With duplicate-free keys, an occurrence is determined by its start and end. -/
theorem isOcc_unique {P : List (Pat V)} (hnd : (P.map (·.key)).Nodup) {h : List Nat}
    {m m' : Match V} (h1 : IsOcc P h m) (h2 : IsOcc P h m')
    (hs : m.start = m'.start) (he : m.stop = m'.stop) : m = m' := by
  obtain ⟨p, hp, hv, _, _, hk⟩ := h1
  obtain ⟨q, hq, hv', _, _, hk'⟩ := h2
  have : p = q := pat_eq_of_key_eq hnd hp hq (by rw [← hk, ← hk', hs, he])
  subst this
  cases m; cases m'; simp_all

theorem IsOcc.start_lt_stop {P : List (Pat V)} (hne : ∀ p ∈ P, p.key ≠ []) {h : List Nat}
    {m : Match V} (h1 : IsOcc P h m) : m.start < m.stop := by
  obtain ⟨p, hp, _, hl, _, _⟩ := h1
  have := List.length_pos_iff.2 (hne p hp)
  omega

theorem IsOcc.stop_le {P : List (Pat V)} {h : List Nat} {m : Match V} (h1 : IsOcc P h m) :
    m.stop ≤ h.length := by
  obtain ⟨p, _, _, _, hl, _⟩ := h1; exact hl

/-! ## `sufPats` -/

theorem mem_sufPats {P : List (Pat V)} {x : List Nat} {p : Pat V} :
    p ∈ sufPats P x ↔ p ∈ P ∧ p.key ≠ [] ∧ p.key <:+ x := by
  simp only [sufPats, patsWithKey, List.mem_flatMap, mem_sufs]
  constructor
  · rintro ⟨s, hs, hm⟩
    split at hm
    · simp at hm
    · rename_i hne
      simp only [List.mem_filter, decide_eq_true_eq] at hm
      exact ⟨hm.1, hm.2 ▸ hne, hm.2 ▸ hs⟩
  · rintro ⟨hp, hne, hs⟩
    exact ⟨p.key, hs, by simp [hne, hp]⟩

theorem sufPats_sorted {P : List (Pat V)} (hnd : (P.map (·.key)).Nodup) (x : List Nat) :
    (sufPats P x).Pairwise (fun a b => b.key.length < a.key.length) := by
  unfold sufPats
  rw [List.pairwise_flatMap]
  constructor
  · intro s _
    split
    · exact List.Pairwise.nil
    · unfold patsWithKey
      have h1 : P.Pairwise (fun a b => a.key ≠ b.key) := by
        have := List.pairwise_map.1 (List.nodup_iff_pairwise_ne.1 hnd)
        exact this
      have h2 := (h1.filter (fun p => decide (p.key = s)))
      refine List.Pairwise.imp_of_mem ?_ h2
      intro a b ha hb hab
      simp only [List.mem_filter, decide_eq_true_eq] at ha hb
      exact absurd (ha.2.trans hb.2.symm) hab
  · refine (sufs_sorted x).imp ?_
    intro s t hst a ha b hb
    split at ha
    · simp at ha
    split at hb
    · simp at hb
    simp only [patsWithKey, List.mem_filter, decide_eq_true_eq] at ha hb
    rw [ha.2, hb.2]; exact hst

/-- Occurrences that lie in the window `w` and end at its end are the pattern suffixes of `w`. -/
theorem occ_window {P : List (Pat V)} (hne : ∀ p ∈ P, p.key ≠ []) (pre w rest : List Nat)
    (m : Match V) :
    (IsOcc P (pre ++ w ++ rest) m ∧ pre.length ≤ m.start ∧ m.stop = pre.length + w.length) ↔
      ∃ p ∈ sufPats P w, matchAt p (pre.length + w.length) = m := by
  constructor
  · rintro ⟨⟨p, hp, hv, hl, hle, hk⟩, hs, he⟩
    refine ⟨p, mem_sufPats.2 ⟨hp, hne p hp, ?_⟩, ?_⟩
    · rw [← hk, he]
      have : (pre ++ w ++ rest).take (pre.length + w.length) = pre ++ w := by
        apply List.take_left'; simp
      rw [this, List.drop_append, List.drop_eq_nil_of_le hs, List.nil_append]
      exact List.drop_suffix _ _
    · cases m; simp only [matchAt] at *; subst he; simp only [Match.mk.injEq]
      refine ⟨by omega, ?_⟩; simpa using hv
  · rintro ⟨p, hp, rfl⟩
    obtain ⟨hp, _, hs⟩ := mem_sufPats.1 hp
    have hlen := hs.length_le
    refine ⟨⟨p, hp, rfl, ?_, ?_, ?_⟩, ?_, rfl⟩
    · simp only [matchAt]; omega
    · simp [matchAt]
    · simp only [matchAt]
      have : (pre ++ w ++ rest).take (pre.length + w.length) = pre ++ w := by
        apply List.take_left'; simp
      rw [this]
      have h2 : p.key <:+ pre ++ w := hs.trans (List.suffix_append _ _)
      have := List.suffix_iff_eq_drop.1 h2
      simp only [List.length_append] at this
      exact this.symm
    · simp only [matchAt]; omega

/-! ## A. Overlapping search -/

theorem mem_specOverlappingFrom {P : List (Pat V)} (hne : ∀ p ∈ P, p.key ≠ []) (m : Match V) :
    ∀ (rest pre : List Nat), m ∈ specOverlappingFrom P pre rest ↔
      IsOcc P (pre ++ rest) m ∧ pre.length < m.stop := by
  intro rest
  induction rest with
  | nil =>
    intro pre
    simp only [specOverlappingFrom, List.not_mem_nil, List.append_nil, false_iff, not_and]
    intro h; have := h.stop_le; omega
  | cons c rest ih =>
    intro pre
    simp only [specOverlappingFrom, List.mem_append, List.mem_map, ih]
    have hw := occ_window hne [] (pre ++ [c]) rest m
    simp only [List.nil_append, List.length_nil, Nat.zero_le, true_and, Nat.zero_add,
      List.length_append, List.length_cons, List.append_assoc, List.cons_append] at hw ⊢
    rw [← hw]
    constructor
    · rintro (⟨h1, h2⟩ | ⟨h1, h2⟩)
      · exact ⟨h1, by omega⟩
      · exact ⟨h1, by omega⟩
    · rintro ⟨h1, h2⟩
      by_cases h3 : m.stop = pre.length + 1
      · exact Or.inl ⟨h1, h3⟩
      · exact Or.inr ⟨h1, by omega⟩

/-- A.1: none missed, none invented. -/
theorem mem_specOverlapping {P : List (Pat V)} (hv : ValidPats P) {h : List Nat} {m : Match V} :
    m ∈ specOverlapping P h ↔ IsOcc P h m := by
  unfold specOverlapping
  rw [mem_specOverlappingFrom hv.key_ne]
  simp only [List.nil_append, List.length_nil, and_iff_left_iff_imp]
  intro h1; have := h1.start_lt_stop hv.key_ne; omega

theorem sufPats_map_matchAt_sorted {P : List (Pat V)} (hnd : (P.map (·.key)).Nodup)
    (x : List Nat) (e : Nat) (he : x.length ≤ e) :
    ((sufPats P x).map (fun p => matchAt p e)).Pairwise
      (fun a b => a.stop = b.stop ∧ a.start < b.start) := by
  rw [List.pairwise_map]
  refine List.Pairwise.imp_of_mem ?_ (sufPats_sorted hnd x)
  intro a b ha hb hab
  have h1 := (mem_sufPats.1 ha).2.2.length_le
  have h2 := (mem_sufPats.1 hb).2.2.length_le
  simp only [matchAt, true_and]; omega

theorem specOverlappingFrom_sorted {P : List (Pat V)} (hv : ValidPats P) :
    ∀ (rest pre : List Nat), (specOverlappingFrom P pre rest).Pairwise
      (fun a b => a.stop < b.stop ∨ (a.stop = b.stop ∧ a.start < b.start)) := by
  intro rest
  induction rest with
  | nil => intro pre; simp [specOverlappingFrom]
  | cons c rest ih =>
    intro pre
    simp only [specOverlappingFrom]
    rw [List.pairwise_append]
    refine ⟨?_, ih _, ?_⟩
    · exact (sufPats_map_matchAt_sorted hv.nodup (pre ++ [c]) (pre.length + 1) (by simp)).imp
        (fun h => Or.inr h)
    · intro a ha b hb
      have hb' := ((mem_specOverlappingFrom hv.key_ne b _ _).1 hb).2
      simp only [List.mem_map] at ha
      obtain ⟨p, _, rfl⟩ := ha
      simp only [List.length_append, List.length_cons, List.length_nil] at hb'
      left; simp only [matchAt]; omega

/-- A.3: increasing end position; among matches ending at the same position, longest first. -/
theorem specOverlapping_sorted {P : List (Pat V)} (hv : ValidPats P) (h : List Nat) :
    (specOverlapping P h).Pairwise
      (fun a b => a.stop < b.stop ∨ (a.stop = b.stop ∧ a.start < b.start)) :=
  specOverlappingFrom_sorted hv h []

/-- A.2: none repeated. -/
theorem specOverlapping_nodup {P : List (Pat V)} (hv : ValidPats P) (h : List Nat) :
    (specOverlapping P h).Nodup := by
  refine (specOverlapping_sorted hv h).imp ?_
  intro a b hab e
  subst e; omega

/-! ## B. No-suffix search -/

theorem head?_eq_some_of_sorted {l : List (Pat V)}
    (hs : l.Pairwise (fun a b => b.key.length < a.key.length)) {p : Pat V} :
    l.head? = some p ↔ p ∈ l ∧ ∀ q ∈ l, q.key.length ≤ p.key.length := by
  cases l with
  | nil => simp
  | cons a l =>
    simp only [List.head?_cons, Option.some.injEq, List.mem_cons, forall_eq_or_imp]
    have h1 := (List.pairwise_cons.1 hs).1
    constructor
    · rintro rfl
      exact ⟨Or.inl rfl, Nat.le_refl _, fun q hq => Nat.le_of_lt (h1 q hq)⟩
    · rintro ⟨rfl | hp, h2, _⟩
      · rfl
      · have := h1 p hp; omega

/-- Occurrences ending at the end of the prefix `x`. -/
theorem occ_prefix_end {P : List (Pat V)} (hne : ∀ p ∈ P, p.key ≠ []) (x rest : List Nat)
    (m : Match V) :
    (IsOcc P (x ++ rest) m ∧ m.stop = x.length) ↔
      ∃ p ∈ sufPats P x, matchAt p x.length = m := by
  have hw := occ_window hne [] x rest m
  simpa using hw

theorem noSuffix_block {P : List (Pat V)} (hv : ValidPats P) (x rest : List Nat) (m : Match V) :
    (∃ p, (sufPats P x).head? = some p ∧ matchAt p x.length = m) ↔
      (IsOcc P (x ++ rest) m ∧ m.stop = x.length ∧
        ∀ m', IsOcc P (x ++ rest) m' → m'.stop = m.stop → m.start ≤ m'.start) := by
  have hs := sufPats_sorted hv.nodup x
  constructor
  · rintro ⟨p, hp, rfl⟩
    obtain ⟨hp1, hp2⟩ := (head?_eq_some_of_sorted hs).1 hp
    obtain ⟨h1, h2⟩ := (occ_prefix_end hv.key_ne x rest _).2 ⟨p, hp1, rfl⟩
    refine ⟨h1, h2, ?_⟩
    intro m' hm' he
    obtain ⟨q, hq, rfl⟩ := (occ_prefix_end hv.key_ne x rest m').1 ⟨hm', by rw [he, h2]⟩
    have := hp2 q hq
    simp only [matchAt]; omega
  · rintro ⟨h1, h2, h3⟩
    obtain ⟨p, hp, rfl⟩ := (occ_prefix_end hv.key_ne x rest m).1 ⟨h1, h2⟩
    refine ⟨p, (head?_eq_some_of_sorted hs).2 ⟨hp, ?_⟩, rfl⟩
    intro q hq
    obtain ⟨h4, h5⟩ := (occ_prefix_end hv.key_ne x rest _).2 ⟨q, hq, rfl⟩
    have := h3 _ h4 (by simp [matchAt])
    have := (mem_sufPats.1 hq).2.2.length_le
    simp only [matchAt] at *; omega

theorem mem_specNoSuffixFrom {P : List (Pat V)} (hv : ValidPats P) (m : Match V) :
    ∀ (rest pre : List Nat), m ∈ specNoSuffixFrom P pre rest ↔
      (IsOcc P (pre ++ rest) m ∧ pre.length < m.stop ∧
        ∀ m', IsOcc P (pre ++ rest) m' → m'.stop = m.stop → m.start ≤ m'.start) := by
  intro rest
  induction rest with
  | nil =>
    intro pre
    simp only [specNoSuffixFrom, List.not_mem_nil, List.append_nil, false_iff, not_and]
    intro h; have := h.stop_le; omega
  | cons c rest ih =>
    intro pre
    simp only [specNoSuffixFrom, List.mem_append, Option.mem_toList, Option.map_eq_some_iff, ih]
    have hb := noSuffix_block hv (pre ++ [c]) rest m
    simp only [List.length_append, List.length_cons, List.length_nil, Nat.zero_add,
      List.append_assoc, List.cons_append, List.nil_append] at hb ⊢
    rw [hb]
    constructor
    · rintro (⟨h1, h2, h3⟩ | ⟨h1, h2, h3⟩)
      · exact ⟨h1, by omega, h3⟩
      · exact ⟨h1, by omega, h3⟩
    · rintro ⟨h1, h2, h3⟩
      by_cases h4 : m.stop = pre.length + 1
      · exact Or.inl ⟨h1, h4, h3⟩
      · exact Or.inr ⟨h1, by omega, h3⟩

/-- B.1: exactly the longest occurrence for every end position at which one ends. -/
theorem mem_specNoSuffix {P : List (Pat V)} (hv : ValidPats P) {h : List Nat} {m : Match V} :
    m ∈ specNoSuffix P h ↔
      (IsOcc P h m ∧ ∀ m', IsOcc P h m' → m'.stop = m.stop → m.start ≤ m'.start) := by
  unfold specNoSuffix
  rw [mem_specNoSuffixFrom hv]
  simp only [List.nil_append, List.length_nil]
  constructor
  · rintro ⟨h1, _, h3⟩; exact ⟨h1, h3⟩
  · rintro ⟨h1, h3⟩
    have := h1.start_lt_stop hv.key_ne
    exact ⟨h1, by omega, h3⟩

theorem specNoSuffixFrom_sorted {P : List (Pat V)} (hv : ValidPats P) :
    ∀ (rest pre : List Nat), (specNoSuffixFrom P pre rest).Pairwise (fun a b => a.stop < b.stop) := by
  intro rest
  induction rest with
  | nil => intro pre; simp [specNoSuffixFrom]
  | cons c rest ih =>
    intro pre
    simp only [specNoSuffixFrom]
    rw [List.pairwise_append]
    refine ⟨?_, ih _, ?_⟩
    · cases (sufPats P (pre ++ [c])).head? <;> simp
    · intro a ha b hb
      have hb' := ((mem_specNoSuffixFrom hv b _ _).1 hb).2.1
      simp only [Option.mem_toList, Option.map_eq_some_iff] at ha
      obtain ⟨p, _, rfl⟩ := ha
      simp only [List.length_append, List.length_cons, List.length_nil] at hb'
      simp only [matchAt]; omega

/-- B.2: strictly increasing end positions (so at most one match per position). -/
theorem specNoSuffix_sorted {P : List (Pat V)} (hv : ValidPats P) (h : List Nat) :
    (specNoSuffix P h).Pairwise (fun a b => a.stop < b.stop) :=
  specNoSuffixFrom_sorted hv h []

theorem specNoSuffixFrom_sublist (P : List (Pat V)) :
    ∀ (rest pre : List Nat), (specNoSuffixFrom P pre rest).Sublist (specOverlappingFrom P pre rest) := by
  intro rest
  induction rest with
  | nil => intro pre; simp [specNoSuffixFrom, specOverlappingFrom]
  | cons c rest ih =>
    intro pre
    simp only [specNoSuffixFrom, specOverlappingFrom]
    refine List.Sublist.append ?_ (ih _)
    cases (sufPats P (pre ++ [c])) <;> simp

/-- B.3: the no-suffix result is a sublist of the overlapping result (which together with
`mem_specNoSuffix` says: keep exactly the first, i.e. longest, match of every end position). -/
theorem specNoSuffix_sublist (P : List (Pat V)) (h : List Nat) :
    (specNoSuffix P h).Sublist (specOverlapping P h) :=
  specNoSuffixFrom_sublist P h []

theorem sublist_eq_filter {α : Type} {l' l : List α} (hs : l'.Sublist l) (hnd : l.Nodup)
    (p : α → Bool) (hm : ∀ m, m ∈ l' ↔ m ∈ l ∧ p m = true) : l' = l.filter p := by
  induction hs with
  | slnil => rfl
  | @cons l₁ l₂ a hs ih =>
    have hnd' := List.nodup_cons.1 hnd
    have ha : a ∉ l₁ := fun h => hnd'.1 (hs.subset h)
    have hpa : p a = false := by
      cases hp : p a with
      | false => rfl
      | true => exact absurd ((hm a).2 ⟨List.mem_cons_self, hp⟩) ha
    rw [List.filter_cons_of_neg (by simp [hpa])]
    apply ih hnd'.2
    intro m
    constructor
    · intro h
      have := (hm m).1 h
      refine ⟨?_, this.2⟩
      rcases List.mem_cons.1 this.1 with rfl | h'
      · exact absurd h ha
      · exact h'
    · rintro ⟨h1, h2⟩
      exact (hm m).2 ⟨List.mem_cons_of_mem _ h1, h2⟩
  | @cons_cons l₁ l₂ a hs ih =>
    have hnd' := List.nodup_cons.1 hnd
    have hpa : p a = true := ((hm a).1 List.mem_cons_self).2
    rw [List.filter_cons_of_pos hpa]
    congr 1
    apply ih hnd'.2
    intro m
    constructor
    · intro h
      exact ⟨hs.subset h, ((hm m).1 (List.mem_cons_of_mem _ h)).2⟩
    · rintro ⟨h1, h2⟩
      rcases List.mem_cons.1 ((hm m).2 ⟨List.mem_cons_of_mem _ h1, h2⟩) with rfl | h'
      · exact absurd h1 hnd'.1
      · exact h'

/-- B.3 (filter form): keep exactly the first (= longest) match of every end position. -/
theorem specNoSuffix_eq_filter {P : List (Pat V)} (hv : ValidPats P) (h : List Nat) :
    specNoSuffix P h = (specOverlapping P h).filter (fun m =>
      decide (∀ m' ∈ specOverlapping P h, m'.stop = m.stop → m.start ≤ m'.start)) := by
  apply sublist_eq_filter (specNoSuffix_sublist P h) (specOverlapping_nodup hv h)
  intro m
  simp only [mem_specNoSuffix hv, mem_specOverlapping hv, decide_eq_true_eq]

/-! ## C. Standard non-overlapping search -/

/-- Each step reports, among the occurrences lying entirely at or after `pos` (the end of the
previous match), the one that ends first, the longest if several end there; the search resumes at
its end; it stops when no occurrence remains. -/
inductive FindSpec (P : List (Pat V)) (h : List Nat) : Nat → List (Match V) → Prop
  | done {pos : Nat} : (¬ ∃ m, IsOcc P h m ∧ pos ≤ m.start) → FindSpec P h pos []
  | step {pos : Nat} {m : Match V} {ms : List (Match V)} :
      IsOcc P h m → pos ≤ m.start →
      (∀ m', IsOcc P h m' → pos ≤ m'.start →
        m.stop < m'.stop ∨ (m.stop = m'.stop ∧ m.start ≤ m'.start)) →
      FindSpec P h m.stop ms → FindSpec P h pos (m :: ms)

theorem IsOcc.start_le_stop {P : List (Pat V)} {h : List Nat} {m : Match V} (h1 : IsOcc P h m) :
    m.start ≤ m.stop := by
  obtain ⟨p, _, _, hl, _, _⟩ := h1; omega

theorem specFindFrom_spec {P : List (Pat V)} (hv : ValidPats P) (h : List Nat) :
    ∀ (rest pre seen : List Nat) (pos : Nat), h = pre ++ seen ++ rest → pos = pre.length →
      (∀ m, IsOcc P h m → pos ≤ m.start → pos + seen.length < m.stop) →
      FindSpec P h pos (specFindFrom P pos seen rest) := by
  intro rest
  induction rest with
  | nil =>
    intro pre seen pos hh hpos hinv
    simp only [specFindFrom]
    apply FindSpec.done
    rintro ⟨m, hm, hs⟩
    have h1 := hinv m hm hs
    have h2 := hm.stop_le
    subst hh; simp at h2; omega
  | cons c rest ih =>
    intro pre seen pos hh hpos hinv
    have hh' : h = pre ++ (seen ++ [c]) ++ rest := by rw [hh]; simp
    have hl : (seen ++ [c]).length = seen.length + 1 := by simp
    have hw := fun m => occ_window hv.key_ne pre (seen ++ [c]) rest m
    rw [← hh', ← hpos, hl, ← Nat.add_assoc] at hw
    simp only [specFindFrom]
    split
    · rename_i p heq
      obtain ⟨hp1, hp2⟩ := (head?_eq_some_of_sorted (sufPats_sorted hv.nodup _)).1 heq
      obtain ⟨ho, hs, he⟩ := (hw _).2 ⟨p, hp1, rfl⟩
      refine FindSpec.step ho hs ?_ ?_
      · intro m' hm' hs'
        have h1 := hinv m' hm' hs'
        by_cases h2 : m'.stop = pos + seen.length + 1
        · right
          obtain ⟨q, hq, rfl⟩ := (hw m').1 ⟨hm', hs', h2⟩
          have := hp2 q hq
          simp only [matchAt, true_and]; omega
        · left; simp only [matchAt]; omega
      · show FindSpec P h (pos + seen.length + 1) _
        apply ih (pre ++ (seen ++ [c])) [] _ (by simpa using hh') (by simp [hpos]; omega)
        intro m hm hs
        have := hm.start_lt_stop hv.key_ne
        simp only [List.length_nil]; omega
    · rename_i heq
      have heq' := List.head?_eq_none_iff.1 heq
      apply ih pre (seen ++ [c]) pos hh' hpos
      intro m hm hs
      have h1 := hinv m hm hs
      by_cases h2 : m.stop = pos + seen.length + 1
      · obtain ⟨q, hq, _⟩ := (hw m).1 ⟨hm, hs, h2⟩
        rw [heq'] at hq; simp at hq
      · rw [hl]; omega

/-- C.1: the executable standard search satisfies the declarative specification. -/
theorem specFind_spec {P : List (Pat V)} (hv : ValidPats P) (h : List Nat) :
    FindSpec P h 0 (specFind P h) := by
  apply specFindFrom_spec hv h h [] [] 0 (by simp) (by simp)
  intro m hm _
  have := hm.start_lt_stop hv.key_ne
  simp only [List.length_nil]; omega

/-- C.2: the specification determines the result. -/
theorem FindSpec.unique {P : List (Pat V)} (hnd : (P.map (·.key)).Nodup) {h : List Nat} {pos : Nat}
    {a b : List (Match V)} (ha : FindSpec P h pos a) (hb : FindSpec P h pos b) : a = b := by
  induction ha generalizing b with
  | done hn =>
    cases hb with
    | done _ => rfl
    | step ho hs _ _ => exact absurd ⟨_, ho, hs⟩ hn
  | step ho hs hmin _ ih =>
    cases hb with
    | done hn => exact absurd ⟨_, ho, hs⟩ hn
    | step ho' hs' hmin' hrec' =>
      have h1 := hmin _ ho' hs'
      have h2 := hmin' _ ho hs
      have := isOcc_unique hnd ho ho' (by omega) (by omega)
      subst this
      rw [ih hrec']

theorem specFind_unique {P : List (Pat V)} (hv : ValidPats P) {h : List Nat} {ms : List (Match V)}
    (hs : FindSpec P h 0 ms) : ms = specFind P h :=
  FindSpec.unique hv.nodup hs (specFind_spec hv h)

theorem FindSpec.all_occ {P : List (Pat V)} {h : List Nat} {pos : Nat} {ms : List (Match V)}
    (hf : FindSpec P h pos ms) : ∀ m ∈ ms, IsOcc P h m ∧ pos ≤ m.start := by
  induction hf with
  | done _ => simp
  | step ho hs _ _ ih =>
    intro x hx
    rcases List.mem_cons.1 hx with rfl | hx
    · exact ⟨ho, hs⟩
    · have h1 := ih x hx
      have := ho.start_le_stop
      exact ⟨h1.1, by omega⟩

theorem FindSpec.nonoverlap {P : List (Pat V)} {h : List Nat} {pos : Nat} {ms : List (Match V)}
    (hf : FindSpec P h pos ms) : ms.Pairwise (fun a b => a.stop ≤ b.start) := by
  induction hf with
  | done _ => simp
  | step ho hs _ hrec ih =>
    rw [List.pairwise_cons]
    exact ⟨fun x hx => (hrec.all_occ x hx).2, ih⟩

/-- C.3: every reported match is an occurrence. -/
theorem specFind_isOcc {P : List (Pat V)} (hv : ValidPats P) {h : List Nat} {m : Match V}
    (hm : m ∈ specFind P h) : IsOcc P h m :=
  ((specFind_spec hv h).all_occ m hm).1

/-- C.4: reported matches never overlap and are in strictly increasing order. -/
theorem specFind_nonoverlap {P : List (Pat V)} (hv : ValidPats P) (h : List Nat) :
    (specFind P h).Pairwise (fun a b => a.stop ≤ b.start) :=
  (specFind_spec hv h).nonoverlap

theorem specFind_increasing {P : List (Pat V)} (hv : ValidPats P) (h : List Nat) :
    (specFind P h).Pairwise (fun a b => a.start < b.start ∧ a.stop < b.stop) := by
  refine List.Pairwise.imp_of_mem ?_ (specFind_nonoverlap hv h)
  intro a b ha hb hab
  have := (specFind_isOcc hv ha).start_lt_stop hv.key_ne
  have := (specFind_isOcc hv hb).start_lt_stop hv.key_ne
  omega

/-! ## Leftmost search, generically in the chooser -/

theorem mem_prefPats {P : List (Pat V)} {x : List Nat} {p : Pat V} :
    p ∈ prefPats P x ↔ p ∈ P ∧ p.key ≠ [] ∧ p.key <+: x := by
  simp [prefPats]

theorem occPat_iff_prefix (pre rest : List Nat) (p : Pat V) :
    OccPat (pre ++ rest) p pre.length ↔ p.key <+: rest := by
  unfold OccPat
  rw [List.drop_take, Nat.add_sub_cancel_left, List.drop_left]
  constructor
  · rintro ⟨_, h2⟩
    rw [← h2]; exact List.take_prefix _ _
  · intro h
    have := h.length_le
    refine ⟨by simp; omega, (List.prefix_iff_eq_take.1 h).symm⟩

/-- Occurrences starting exactly at the end of `pre` are the pattern prefixes of `rest`. -/
theorem occ_at_start {P : List (Pat V)} (pre rest : List Nat) (m : Match V) :
    (IsOcc P (pre ++ rest) m ∧ m.start = pre.length) ↔
      ∃ p ∈ P, p.key <+: rest ∧ m = ⟨pre.length, pre.length + p.key.length, p.value⟩ := by
  rw [isOcc_iff_occPat]
  constructor
  · rintro ⟨⟨p, hp, hv, hl, ho⟩, hs⟩
    rw [hs] at ho hl
    refine ⟨p, hp, (occPat_iff_prefix pre rest p).1 ho, ?_⟩
    cases m; simp_all
  · rintro ⟨p, hp, hpre, rfl⟩
    exact ⟨⟨p, hp, rfl, rfl, (occPat_iff_prefix pre rest p).2 hpre⟩, rfl⟩

/-- Leftmost search specification, generic in the rule `Sel` that chooses among the occurrences
starting at the leftmost start. -/
inductive LeftmostSpec (Sel : Match V → Prop) (P : List (Pat V)) (h : List Nat) :
    Nat → List (Match V) → Prop
  | done {pos : Nat} : (¬ ∃ m, IsOcc P h m ∧ pos ≤ m.start) → LeftmostSpec Sel P h pos []
  | step {pos : Nat} {m : Match V} {ms : List (Match V)} :
      IsOcc P h m → pos ≤ m.start →
      (∀ m', IsOcc P h m' → pos ≤ m'.start → m.start ≤ m'.start) → Sel m →
      LeftmostSpec Sel P h m.stop ms → LeftmostSpec Sel P h pos (m :: ms)

theorem LeftmostSpec.shift {Sel : Match V → Prop} {P : List (Pat V)} {h : List Nat} {pos : Nat}
    {ms : List (Match V)} (hf : LeftmostSpec Sel P h (pos + 1) ms)
    (hno : ∀ m, IsOcc P h m → m.start ≠ pos) : LeftmostSpec Sel P h pos ms := by
  cases hf with
  | done hn =>
    refine .done ?_
    rintro ⟨m, hm, hs⟩
    exact hn ⟨m, hm, by have := hno m hm; omega⟩
  | step ho hs hmin hsel hrec =>
    exact .step ho (by omega) (fun m' hm' hs' => hmin m' hm' (by have := hno m' hm'; omega))
      hsel hrec

theorem specLeftmostGo_spec {pick : List (Pat V) → Option (Pat V)} {Sel : Match V → Prop}
    {P : List (Pat V)} (hne : ∀ p ∈ P, p.key ≠ []) (h : List Nat)
    (hnone : ∀ l, pick l = none → l = [])
    (hsome : ∀ pre rest p, h = pre ++ rest → pick (prefPats P rest) = some p →
      p ∈ prefPats P rest ∧ Sel ⟨pre.length, pre.length + p.key.length, p.value⟩) :
    ∀ (rest pre : List Nat) (s skip : Nat), h = pre ++ rest → s = pre.length →
      LeftmostSpec Sel P h (s + skip) (specLeftmostGo pick P rest s skip) := by
  intro rest
  induction rest with
  | nil =>
    intro pre s skip hh hs
    simp only [specLeftmostGo]
    refine .done ?_
    rintro ⟨m, hm, hms⟩
    have h1 := hm.start_lt_stop hne
    have h2 := hm.stop_le
    subst hh; simp at h2; omega
  | cons c r ih =>
    intro pre s skip hh hs
    have hh' : h = (pre ++ [c]) ++ r := by rw [hh]; simp
    have hs' : s + 1 = (pre ++ [c]).length := by simp [hs]
    cases skip with
    | succ skip =>
      simp only [specLeftmostGo]
      have := ih (pre ++ [c]) (s + 1) skip hh' hs'
      rw [show s + (skip + 1) = s + 1 + skip by omega]
      exact this
    | zero =>
      simp only [specLeftmostGo]
      split
      · rename_i heq
        have hnil := hnone _ heq
        have := ih (pre ++ [c]) (s + 1) 0 hh' hs'
        rw [Nat.add_zero] at this ⊢
        refine this.shift ?_
        intro m hm hms
        rw [hh] at hm
        obtain ⟨p, hp, hpre, _⟩ := (occ_at_start pre (c :: r) m).1 ⟨hm, by omega⟩
        have : p ∈ prefPats P (c :: r) := mem_prefPats.2 ⟨hp, hne p hp, hpre⟩
        rw [hnil] at this; simp at this
      · rename_i p heq
        obtain ⟨hmem, hsel⟩ := hsome pre (c :: r) p hh heq
        obtain ⟨hp, hpne, hpre⟩ := mem_prefPats.1 hmem
        have hocc := ((occ_at_start pre (c :: r) _).2 ⟨p, hp, hpre, rfl⟩).1
        rw [← hh, ← hs] at hocc
        rw [← hs] at hsel
        refine .step hocc (by simp) (fun m' _ hm' => by simpa using hm') hsel ?_
        have hlen := List.length_pos_iff.2 hpne
        have := ih (pre ++ [c]) (s + 1) (p.key.length - 1) hh' hs'
        rw [show s + 1 + (p.key.length - 1) = s + p.key.length by omega] at this
        exact this

/-- Two choosers that agree on all prefix-pattern lists give the same leftmost search. -/
theorem specLeftmostGo_congr {pick pick' : List (Pat V) → Option (Pat V)} {P P' : List (Pat V)}
    (hp : ∀ x, pick (prefPats P x) = pick' (prefPats P' x)) :
    ∀ (rest : List Nat) (s skip : Nat),
      specLeftmostGo pick P rest s skip = specLeftmostGo pick' P' rest s skip := by
  intro rest
  induction rest with
  | nil => intro s skip; simp [specLeftmostGo]
  | cons c r ih =>
    intro s skip
    cases skip with
    | succ skip => simp only [specLeftmostGo]; exact ih _ _
    | zero =>
      simp only [specLeftmostGo, hp (c :: r)]
      split
      · exact ih _ _
      · rw [ih]

theorem LeftmostSpec.covered {Sel : Match V → Prop} {P : List (Pat V)} {h : List Nat} {pos : Nat}
    {ms : List (Match V)} (hf : LeftmostSpec Sel P h pos ms) :
    ∀ m', IsOcc P h m' → pos ≤ m'.start → ∃ a ∈ ms, a.start ≤ m'.start ∧ m'.start < a.stop := by
  induction hf with
  | done hn => intro m' hm' hs; exact absurd ⟨m', hm', hs⟩ hn
  | @step pos m ms ho hs hmin _ _ ih =>
    intro m' hm' hs'
    by_cases hc : m'.start < m.stop
    · exact ⟨m, List.mem_cons_self, hmin m' hm' hs', hc⟩
    · obtain ⟨a, ha, h1⟩ := ih m' hm' (by omega)
      exact ⟨a, List.mem_cons_of_mem _ ha, h1⟩

theorem LeftmostSpec.all_occ {Sel : Match V → Prop} {P : List (Pat V)} {h : List Nat} {pos : Nat}
    {ms : List (Match V)} (hf : LeftmostSpec Sel P h pos ms) :
    ∀ m ∈ ms, IsOcc P h m ∧ pos ≤ m.start ∧ Sel m := by
  induction hf with
  | done _ => simp
  | step ho hs _ hsel _ ih =>
    intro x hx
    rcases List.mem_cons.1 hx with rfl | hx
    · exact ⟨ho, hs, hsel⟩
    · have h1 := ih x hx
      have := ho.start_le_stop
      exact ⟨h1.1, by omega, h1.2.2⟩

theorem LeftmostSpec.nonoverlap {Sel : Match V → Prop} {P : List (Pat V)} {h : List Nat}
    {pos : Nat} {ms : List (Match V)} (hf : LeftmostSpec Sel P h pos ms) :
    ms.Pairwise (fun a b => a.stop ≤ b.start) := by
  induction hf with
  | done _ => simp
  | step _ _ _ _ hrec ih =>
    rw [List.pairwise_cons]
    exact ⟨fun x hx => (hrec.all_occ x hx).2.1, ih⟩

/-- The tail of a specified result is specified from the end of the preceding match. -/
theorem LeftmostSpec.drop {Sel : Match V → Prop} {P : List (Pat V)} {h : List Nat} :
    ∀ (l₁ : List (Match V)) {pos : Nat} {a : Match V} {l₂ : List (Match V)},
      LeftmostSpec Sel P h pos (l₁ ++ a :: l₂) → LeftmostSpec Sel P h a.stop l₂ := by
  intro l₁
  induction l₁ with
  | nil => intro pos a l₂ hf; cases hf with | step _ _ _ _ hrec => exact hrec
  | cons b l₁ ih => intro pos a l₂ hf; cases hf with | step _ _ _ _ hrec => exact ih hrec

/-! ## D. Leftmost-longest search -/

/-- Each step reports, among the occurrences starting at or after `pos`, one with the smallest
start, and among those with that start the longest; the search resumes at its end. -/
inductive LLSpec (P : List (Pat V)) (h : List Nat) : Nat → List (Match V) → Prop
  | done {pos : Nat} : (¬ ∃ m, IsOcc P h m ∧ pos ≤ m.start) → LLSpec P h pos []
  | step {pos : Nat} {m : Match V} {ms : List (Match V)} :
      IsOcc P h m → pos ≤ m.start →
      (∀ m', IsOcc P h m' → pos ≤ m'.start →
        m.start < m'.start ∨ (m.start = m'.start ∧ m'.stop ≤ m.stop)) →
      LLSpec P h m.stop ms → LLSpec P h pos (m :: ms)

theorem longestPat_eq_none {l : List (Pat V)} (h : longestPat l = none) : l = [] := by
  cases l with
  | nil => rfl
  | cons a l =>
    simp only [longestPat] at h
    split at h
    · simp at h
    · split at h <;> simp at h

theorem longestPat_some {l : List (Pat V)} {p : Pat V} (h : longestPat l = some p) :
    p ∈ l ∧ ∀ q ∈ l, q.key.length ≤ p.key.length := by
  induction l generalizing p with
  | nil => simp [longestPat] at h
  | cons a l ih =>
    simp only [longestPat] at h
    split at h
    · rename_i hn
      have := longestPat_eq_none hn
      subst this
      simp only [Option.some.injEq] at h
      subst h; simp
    · rename_i q hq
      obtain ⟨h1, h2⟩ := ih hq
      split at h
      · simp only [Option.some.injEq] at h
        subst h
        refine ⟨List.mem_cons_of_mem _ h1, ?_⟩
        intro x hx
        rcases List.mem_cons.1 hx with rfl | hx
        · omega
        · exact h2 x hx
      · simp only [Option.some.injEq] at h
        subst h
        refine ⟨List.mem_cons_self, ?_⟩
        intro x hx
        rcases List.mem_cons.1 hx with rfl | hx
        · omega
        · have := h2 x hx; omega

/-- The leftmost-longest selection rule. -/
def SelLL (P : List (Pat V)) (h : List Nat) (m : Match V) : Prop :=
  ∀ m', IsOcc P h m' → m'.start = m.start → m'.stop ≤ m.stop

theorem LLSpec_iff_leftmost {P : List (Pat V)} {h : List Nat} {pos : Nat} {ms : List (Match V)} :
    LLSpec P h pos ms ↔ LeftmostSpec (SelLL P h) P h pos ms := by
  constructor
  · intro hf
    induction hf with
    | done hn => exact .done hn
    | step ho hs hmin _ ih =>
      refine .step ho hs ?_ ?_ ih
      · intro m' hm' hs'; have := hmin m' hm' hs'; omega
      · intro m' hm' he
        have := hmin m' hm' (by omega); omega
  · intro hf
    induction hf with
    | done hn => exact .done hn
    | @step pos m ms ho hs hmin hsel _ ih =>
      refine .step ho hs ?_ ih
      intro m' hm' hs'
      have h1 := hmin m' hm' hs'
      by_cases he : m'.start = m.start
      · right; exact ⟨he.symm, hsel m' hm' he⟩
      · left; omega

theorem specLL_go_spec {P : List (Pat V)} (hv : ValidPats P) (h : List Nat) :
    ∀ (rest pre : List Nat) (s skip : Nat), h = pre ++ rest → s = pre.length →
      LeftmostSpec (SelLL P h) P h (s + skip) (specLeftmostGo longestPat P rest s skip) := by
  apply specLeftmostGo_spec hv.key_ne h (fun l => longestPat_eq_none)
  intro pre rest p hh heq
  obtain ⟨h1, h2⟩ := longestPat_some heq
  refine ⟨h1, ?_⟩
  intro m' hm' he
  rw [hh] at hm'
  obtain ⟨q, hq, hpre, rfl⟩ := (occ_at_start pre rest m').1 ⟨hm', he⟩
  have := h2 q (mem_prefPats.2 ⟨hq, hv.key_ne q hq, hpre⟩)
  simp only; omega

/-- D.1: the executable leftmost-longest search satisfies the declarative specification. -/
theorem specLL_spec {P : List (Pat V)} (hv : ValidPats P) (h : List Nat) :
    LLSpec P h 0 (specLL P h) :=
  LLSpec_iff_leftmost.2 (specLL_go_spec hv h h [] 0 0 rfl rfl)

/-- D.2: the specification determines the result. -/
theorem LLSpec.unique {P : List (Pat V)} (hnd : (P.map (·.key)).Nodup) {h : List Nat} {pos : Nat}
    {a b : List (Match V)} (ha : LLSpec P h pos a) (hb : LLSpec P h pos b) : a = b := by
  induction ha generalizing b with
  | done hn =>
    cases hb with
    | done _ => rfl
    | step ho hs _ _ => exact absurd ⟨_, ho, hs⟩ hn
  | step ho hs hmin _ ih =>
    cases hb with
    | done hn => exact absurd ⟨_, ho, hs⟩ hn
    | step ho' hs' hmin' hrec' =>
      have h1 := hmin _ ho' hs'
      have h2 := hmin' _ ho hs
      have := isOcc_unique hnd ho ho' (by omega) (by omega)
      subst this
      rw [ih hrec']

theorem specLL_unique {P : List (Pat V)} (hv : ValidPats P) {h : List Nat} {ms : List (Match V)}
    (hs : LLSpec P h 0 ms) : ms = specLL P h :=
  LLSpec.unique hv.nodup hs (specLL_spec hv h)

/-- D.3: every reported match is an occurrence; matches do not overlap. -/
theorem specLL_isOcc {P : List (Pat V)} (hv : ValidPats P) {h : List Nat} {m : Match V}
    (hm : m ∈ specLL P h) : IsOcc P h m :=
  ((LLSpec_iff_leftmost.1 (specLL_spec hv h)).all_occ m hm).1

theorem specLL_nonoverlap {P : List (Pat V)} (hv : ValidPats P) (h : List Nat) :
    (specLL P h).Pairwise (fun a b => a.stop ≤ b.start) :=
  (LLSpec_iff_leftmost.1 (specLL_spec hv h)).nonoverlap

/-- D.4: every occurrence starts inside some reported match (no occurrence starts in a gap). -/
theorem specLL_covered {P : List (Pat V)} (hv : ValidPats P) {h : List Nat} {m' : Match V}
    (hm' : IsOcc P h m') : ∃ a ∈ specLL P h, a.start ≤ m'.start ∧ m'.start < a.stop :=
  (LLSpec_iff_leftmost.1 (specLL_spec hv h)).covered m' hm' (Nat.zero_le _)

/-- D.4, gap form: no occurrence starts before the first reported match. -/
theorem specLL_no_occ_before_first {P : List (Pat V)} (hv : ValidPats P) {h : List Nat}
    {a : Match V} {l : List (Match V)} (he : specLL P h = a :: l) {m' : Match V}
    (hm' : IsOcc P h m') : a.start ≤ m'.start := by
  have := LLSpec_iff_leftmost.1 (specLL_spec hv h)
  rw [he] at this
  cases this with
  | step _ _ hmin _ _ => exact hmin m' hm' (Nat.zero_le _)

/-- D.4, gap form: no occurrence starts in `[a.stop, b.start)` for consecutive reported matches. -/
theorem specLL_no_occ_in_gap {P : List (Pat V)} (hv : ValidPats P) {h : List Nat}
    {a b : Match V} {l₁ l₂ : List (Match V)} (he : specLL P h = l₁ ++ a :: b :: l₂)
    {m' : Match V} (hm' : IsOcc P h m') : ¬ (a.stop ≤ m'.start ∧ m'.start < b.start) := by
  have := LLSpec_iff_leftmost.1 (specLL_spec hv h)
  rw [he] at this
  have := this.drop l₁
  cases this with
  | step _ _ hmin _ _ =>
    rintro ⟨h1, h2⟩
    have := hmin m' hm' h1; omega

/-- D.4, gap form: no occurrence starts at or after the end of the last reported match. -/
theorem specLL_no_occ_after_last {P : List (Pat V)} (hv : ValidPats P) {h : List Nat}
    {a : Match V} {l₁ : List (Match V)} (he : specLL P h = l₁ ++ [a])
    {m' : Match V} (hm' : IsOcc P h m') : m'.start < a.stop := by
  have := LLSpec_iff_leftmost.1 (specLL_spec hv h)
  rw [he] at this
  have := this.drop l₁
  cases this with
  | done hn =>
    apply Classical.byContradiction
    intro hc
    exact hn ⟨m', hm', by omega⟩

/-- D.4: if nothing is reported there is no occurrence at all. -/
theorem specLL_nil_iff {P : List (Pat V)} (hv : ValidPats P) {h : List Nat} :
    specLL P h = [] ↔ ¬ ∃ m, IsOcc P h m := by
  constructor
  · intro he
    rintro ⟨m, hm⟩
    obtain ⟨a, ha, _⟩ := specLL_covered hv hm
    rw [he] at ha; simp at ha
  · intro hn
    cases hl : specLL P h with
    | nil => rfl
    | cons a l =>
      exact absurd ⟨a, specLL_isOcc hv (hl ▸ List.mem_cons_self)⟩ hn

/-! ## E. Leftmost-first search -/

/-- Each step reports, among the occurrences starting at or after `pos`, one with the smallest
start `s`, and among the patterns occurring at `s` the earliest registered (smallest index in
`P`); the search resumes at its end. -/
inductive LFSpec (P : List (Pat V)) (h : List Nat) : Nat → List (Match V) → Prop
  | done {pos : Nat} : (¬ ∃ m, IsOcc P h m ∧ pos ≤ m.start) → LFSpec P h pos []
  | step {pos : Nat} {ms : List (Match V)} (i : Nat) (p : Pat V) (s : Nat) :
      P[i]? = some p → OccPat h p s → pos ≤ s →
      (∀ m', IsOcc P h m' → pos ≤ m'.start → s ≤ m'.start) →
      (∀ (j : Nat) (q : Pat V), P[j]? = some q → OccPat h q s → i ≤ j) →
      LFSpec P h (s + p.key.length) ms →
      LFSpec P h pos (⟨s, s + p.key.length, p.value⟩ :: ms)

/-- The leftmost-first selection rule. -/
def SelLF (P : List (Pat V)) (h : List Nat) (m : Match V) : Prop :=
  ∃ (i : Nat) (p : Pat V), P[i]? = some p ∧ OccPat h p m.start ∧
    m = ⟨m.start, m.start + p.key.length, p.value⟩ ∧
    ∀ (j : Nat) (q : Pat V), P[j]? = some q → OccPat h q m.start → i ≤ j

theorem LFSpec_of_leftmost {P : List (Pat V)} {h : List Nat} {pos : Nat} {ms : List (Match V)}
    (hf : LeftmostSpec (SelLF P h) P h pos ms) : LFSpec P h pos ms := by
  induction hf with
  | done hn => exact .done hn
  | @step pos m ms ho hs hmin hsel _ ih =>
    obtain ⟨i, p, hi, hocc, hm, hfirst⟩ := hsel
    cases m with
    | mk s e v =>
      simp only [Match.mk.injEq, true_and] at hm
      obtain ⟨rfl, rfl⟩ := hm
      exact .step i p s hi hocc hs hmin hfirst ih

theorem specLF_go_spec {P : List (Pat V)} (hv : ValidPats P) (h : List Nat) :
    ∀ (rest pre : List Nat) (s skip : Nat), h = pre ++ rest → s = pre.length →
      LeftmostSpec (SelLF P h) P h (s + skip) (specLeftmostGo List.head? P rest s skip) := by
  apply specLeftmostGo_spec hv.key_ne h (fun l hl => List.head?_eq_none_iff.1 hl)
  intro pre rest p hh heq
  refine ⟨List.mem_of_mem_head? heq, ?_⟩
  unfold prefPats at heq
  rw [List.head?_filter, List.find?_eq_some_iff_append] at heq
  obtain ⟨hpred, as, bs, hP, has⟩ := heq
  simp only [ne_eq, decide_eq_true_eq] at hpred
  refine ⟨as.length, p, by simp [hP], ?_, rfl, ?_⟩
  · rw [hh]; exact (occPat_iff_prefix pre rest p).2 hpred.2
  · intro j q hj hq
    rw [hh] at hq
    have hq' := (occPat_iff_prefix pre rest q).1 hq
    apply Classical.byContradiction
    intro hlt
    have hlt : j < as.length := by omega
    rw [hP, List.getElem?_append_left hlt] at hj
    have hmem := List.mem_of_getElem? hj
    have hqP : q ∈ P := by rw [hP]; exact List.mem_append_left _ hmem
    have := has q hmem
    simp [hv.key_ne q hqP, hq'] at this

/-- E.1: the executable leftmost-first search satisfies the declarative specification. -/
theorem specLF_spec {P : List (Pat V)} (hv : ValidPats P) (h : List Nat) :
    LFSpec P h 0 (specLF P h) :=
  LFSpec_of_leftmost (specLF_go_spec hv h h [] 0 0 rfl rfl)

theorem isOcc_of_occPat {P : List (Pat V)} {h : List Nat} {p : Pat V} {s : Nat} (hp : p ∈ P)
    (ho : OccPat h p s) : IsOcc P h ⟨s, s + p.key.length, p.value⟩ :=
  isOcc_iff_occPat.2 ⟨p, hp, rfl, rfl, ho⟩

/-- E.1': the leftmost-first specification determines the result. -/
theorem LFSpec.unique {P : List (Pat V)} {h : List Nat} {pos : Nat}
    {a b : List (Match V)} (ha : LFSpec P h pos a) (hb : LFSpec P h pos b) : a = b := by
  induction ha generalizing b with
  | done hn =>
    cases hb with
    | done _ => rfl
    | step i p s hi ho hs _ _ _ =>
      exact absurd ⟨_, isOcc_of_occPat (List.mem_of_getElem? hi) ho, hs⟩ hn
  | step i p s hi ho hs hmin hfirst _ ih =>
    cases hb with
    | done hn => exact absurd ⟨_, isOcc_of_occPat (List.mem_of_getElem? hi) ho, hs⟩ hn
    | step i' p' s' hi' ho' hs' hmin' hfirst' hrec' =>
      have h1 := hmin _ (isOcc_of_occPat (List.mem_of_getElem? hi') ho') hs'
      have h2 := hmin' _ (isOcc_of_occPat (List.mem_of_getElem? hi) ho) hs
      have : s = s' := by simp only at h1 h2; omega
      subst this
      have h3 := hfirst i' p' hi' ho'
      have h4 := hfirst' i p hi ho
      have : i = i' := by omega
      subst this
      rw [hi] at hi'
      simp only [Option.some.injEq] at hi'
      subst hi'
      rw [ih hrec']

theorem specLF_unique {P : List (Pat V)} (hv : ValidPats P) {h : List Nat} {ms : List (Match V)}
    (hs : LFSpec P h 0 ms) : ms = specLF P h :=
  LFSpec.unique hs (specLF_spec hv h)

theorem specLF_isOcc {P : List (Pat V)} (hv : ValidPats P) {h : List Nat} {m : Match V}
    (hm : m ∈ specLF P h) : IsOcc P h m :=
  ((specLF_go_spec hv h h [] 0 0 rfl rfl).all_occ m hm).1

theorem specLF_nonoverlap {P : List (Pat V)} (hv : ValidPats P) (h : List Nat) :
    (specLF P h).Pairwise (fun a b => a.stop ≤ b.start) :=
  (specLF_go_spec hv h h [] 0 0 rfl rfl).nonoverlap

theorem specLF_covered {P : List (Pat V)} (hv : ValidPats P) {h : List Nat} {m' : Match V}
    (hm' : IsOcc P h m') : ∃ a ∈ specLF P h, a.start ≤ m'.start ∧ m'.start < a.stop :=
  (specLF_go_spec hv h h [] 0 0 rfl rfl).covered m' hm' (Nat.zero_le _)

/-! ### Shadowed patterns -/

theorem mem_retainedGo {p : Pat V} : ∀ (ps earlier : List (Pat V)),
    p ∈ retainedGo earlier ps ↔ ∃ i : Nat, ps[i]? = some p ∧
      ∀ q ∈ earlier ++ ps.take i, ¬ (q.key <+: p.key ∧ q.key ≠ p.key) := by
  intro ps
  induction ps with
  | nil => intro earlier; simp [retainedGo]
  | cons a ps ih =>
    intro earlier
    have hstep : (∃ i : Nat, ps[i]? = some p ∧
        ∀ q ∈ (earlier ++ [a]) ++ ps.take i, ¬ (q.key <+: p.key ∧ q.key ≠ p.key)) ↔
        ∃ i : Nat, (a :: ps)[i + 1]? = some p ∧
          ∀ q ∈ earlier ++ (a :: ps).take (i + 1), ¬ (q.key <+: p.key ∧ q.key ≠ p.key) := by
      simp
    have hsplit : (∃ i : Nat, (a :: ps)[i]? = some p ∧
          ∀ q ∈ earlier ++ (a :: ps).take i, ¬ (q.key <+: p.key ∧ q.key ≠ p.key)) ↔
        (a = p ∧ ∀ q ∈ earlier, ¬ (q.key <+: p.key ∧ q.key ≠ p.key)) ∨
        ∃ i : Nat, (a :: ps)[i + 1]? = some p ∧
          ∀ q ∈ earlier ++ (a :: ps).take (i + 1), ¬ (q.key <+: p.key ∧ q.key ≠ p.key) := by
      constructor
      · rintro ⟨i, h1, h2⟩
        cases i with
        | zero =>
          left
          simp only [List.getElem?_cons_zero, Option.some.injEq] at h1
          simp only [List.take_zero, List.append_nil] at h2
          exact ⟨h1, h2⟩
        | succ i => right; exact ⟨i, h1, h2⟩
      · rintro (⟨h1, h2⟩ | ⟨i, h1, h2⟩)
        · refine ⟨0, by simp [h1], ?_⟩
          simpa only [List.take_zero, List.append_nil] using h2
        · exact ⟨i + 1, h1, h2⟩
    rw [hsplit, ← hstep, ← ih]
    simp only [retainedGo]
    split
    · rename_i hany
      simp only [List.any_eq_true, decide_eq_true_eq] at hany
      constructor
      · exact Or.inr
      · rintro (⟨rfl, h2⟩ | h)
        · obtain ⟨q, hq, hq2⟩ := hany
          exact absurd hq2 (h2 q hq)
        · exact h
    · rename_i hany
      simp only [List.any_eq_true, decide_eq_true_eq, not_exists, not_and] at hany
      rw [List.mem_cons]
      constructor
      · rintro (rfl | h)
        · exact Or.inl ⟨rfl, fun q hq => by simpa using hany q hq⟩
        · exact Or.inr h
      · rintro (⟨rfl, _⟩ | h)
        · exact Or.inl rfl
        · exact Or.inr h

/-- E(i): `p` is retained iff it is registered (at some index `i`) and no pattern registered
before it has a key that is a proper prefix of `p`'s key. -/
theorem retained_spec {P : List (Pat V)} {p : Pat V} :
    p ∈ retained P ↔ ∃ i : Nat, P[i]? = some p ∧
      ∀ q ∈ P.take i, ¬ (q.key <+: p.key ∧ q.key ≠ p.key) := by
  unfold retained
  rw [mem_retainedGo]
  simp

theorem retainedGo_sublist : ∀ (ps earlier : List (Pat V)), (retainedGo earlier ps).Sublist ps := by
  intro ps
  induction ps with
  | nil => intro earlier; simp [retainedGo]
  | cons a ps ih =>
    intro earlier
    simp only [retainedGo]
    split
    · exact (ih _).cons _
    · exact (ih _).cons_cons _

theorem retained_sublist (P : List (Pat V)) : (retained P).Sublist P := retainedGo_sublist P []

theorem retained_key_ne {P : List (Pat V)} (hne : ∀ p ∈ P, p.key ≠ []) :
    ∀ p ∈ retained P, p.key ≠ [] :=
  fun p hp => hne p ((retained_sublist P).subset hp)

theorem retained_nodup {P : List (Pat V)} (hnd : (P.map (·.key)).Nodup) :
    ((retained P).map (·.key)).Nodup :=
  hnd.sublist ((retained_sublist P).map _)

/-- The earliest-registered pattern that is a prefix of `x` is never shadowed. -/
theorem head?_prefPats_retainedGo (x : List Nat) : ∀ (ps earlier : List (Pat V)),
    (∀ q ∈ earlier, q.key ≠ []) → (∀ q ∈ ps, q.key ≠ []) → (∀ q ∈ earlier, ¬ q.key <+: x) →
    (prefPats (retainedGo earlier ps) x).head? = (prefPats ps x).head? := by
  intro ps
  induction ps with
  | nil => intro earlier _ _ _; simp [retainedGo]
  | cons a ps ih =>
    intro earlier he hps hno
    have hps' : ∀ q ∈ ps, q.key ≠ [] := fun q hq => hps q (List.mem_cons_of_mem _ hq)
    have ha : a.key ≠ [] := hps a List.mem_cons_self
    by_cases hpa : a.key <+: x
    · have hkeep : ¬ (earlier.any (fun q => q.key <+: a.key ∧ q.key ≠ a.key) = true) := by
        simp only [List.any_eq_true, decide_eq_true_eq, not_exists, not_and]
        intro q hq hqa
        exact absurd (hqa.trans hpa) (hno q hq)
      simp only [retainedGo, hkeep]
      simp [prefPats, ha, hpa]
    · have he' : ∀ q ∈ earlier ++ [a], q.key ≠ [] := by
        intro q hq
        rcases List.mem_append.1 hq with h | h
        · exact he q h
        · simp at h; subst h; exact ha
      have hno' : ∀ q ∈ earlier ++ [a], ¬ q.key <+: x := by
        intro q hq
        rcases List.mem_append.1 hq with h | h
        · exact hno q h
        · simp at h; subst h; exact hpa
      have := ih (earlier ++ [a]) he' hps' hno'
      have hr : (prefPats (a :: ps) x) = prefPats ps x := by
        simp [prefPats, hpa]
      rw [hr, ← this]
      simp only [retainedGo]
      split
      · rfl
      · simp [prefPats, hpa]

theorem head?_prefPats_retained {P : List (Pat V)} (hne : ∀ p ∈ P, p.key ≠ []) (x : List Nat) :
    (prefPats (retained P) x).head? = (prefPats P x).head? :=
  head?_prefPats_retainedGo x P [] (by simp) hne (by simp)

/-- E(iii): removing the shadowed patterns does not change the leftmost-first search. -/
theorem specLF_retained {P : List (Pat V)} (hv : ValidPats P) (h : List Nat) :
    specLF P h = specLF (retained P) h := by
  unfold specLF
  exact specLeftmostGo_congr (fun x => (head?_prefPats_retained hv.key_ne x).symm) h 0 0

theorem retained_ne_nil {P : List (Pat V)} (hP : P ≠ []) : retained P ≠ [] := by
  cases P with
  | nil => exact absurd rfl hP
  | cons a P => simp [retained, retainedGo]

theorem retained_valid {P : List (Pat V)} (hv : ValidPats P) : ValidPats (retained P) :=
  ⟨retained_ne_nil hv.1, retained_key_ne hv.key_ne, retained_nodup hv.nodup⟩

/-- E(iii): every match reported by leftmost-first search is an occurrence of a *retained*
pattern; so a pattern with an earlier-registered proper prefix is never reported. -/
theorem specLF_isOcc_retained {P : List (Pat V)} (hv : ValidPats P) {h : List Nat} {m : Match V}
    (hm : m ∈ specLF P h) : IsOcc (retained P) h m := by
  rw [specLF_retained hv] at hm
  exact specLF_isOcc (retained_valid hv) hm

/-- E(iii), explicit form: if `p` (registered at index `i`) has an earlier-registered proper
prefix `q`, then no reported match is an occurrence of `p`. -/
theorem specLF_never_reports_shadowed {P : List (Pat V)} (hv : ValidPats P) {h : List Nat}
    {p q : Pat V} {i : Nat} (hi : P[i]? = some p) (hq : q ∈ P.take i)
    (hpre : q.key <+: p.key) (hneq : q.key ≠ p.key) {m : Match V} (hm : m ∈ specLF P h) :
    ¬ (m.stop ≤ h.length ∧ (h.take m.stop).drop m.start = p.key) := by
  rintro ⟨hle, hk⟩
  obtain ⟨r, hr, _, _, _, hk'⟩ := specLF_isOcc_retained hv hm
  have hrp : r = p := pat_eq_of_key_eq hv.nodup ((retained_sublist P).subset hr)
    (List.mem_of_getElem? hi) (by rw [← hk, ← hk'])
  subst hrp
  obtain ⟨j, hj, hall⟩ := retained_spec.1 hr
  -- indices of equal elements coincide because keys are duplicate-free
  have hij : i = j := by
    have hnd : P.Nodup :=
      (List.pairwise_map.1 hv.nodup).imp (fun hab e => hab (by rw [e]))
    have hlt : i < P.length := (List.getElem?_eq_some_iff.1 hi).1
    exact (List.getElem?_inj hlt hnd).1 (hi.trans hj.symm)
  subst hij
  exact hall q hq ⟨hpre, hneq⟩

theorem retainedGo_pairwise : ∀ (ps earlier : List (Pat V)),
    (retainedGo earlier ps).Pairwise (fun a b => ¬ (a.key <+: b.key ∧ a.key ≠ b.key)) := by
  intro ps
  induction ps with
  | nil => intro earlier; simp [retainedGo]
  | cons a ps ih =>
    intro earlier
    simp only [retainedGo]
    split
    · exact ih _
    · rw [List.pairwise_cons]
      refine ⟨?_, ih _⟩
      intro b hb
      obtain ⟨i, _, hall⟩ := (mem_retainedGo ps (earlier ++ [a])).1 hb
      exact hall a (by simp)

/-- Among retained patterns, no pattern has an earlier retained proper prefix. -/
theorem retained_pairwise (P : List (Pat V)) :
    (retained P).Pairwise (fun a b => ¬ (a.key <+: b.key ∧ a.key ≠ b.key)) :=
  retainedGo_pairwise P []

theorem longestPat_eq_head? {l : List (Pat V)}
    (hs : l.Pairwise (fun a b => b.key.length < a.key.length)) : longestPat l = l.head? := by
  induction l with
  | nil => rfl
  | cons a l ih =>
    obtain ⟨h1, h2⟩ := List.pairwise_cons.1 hs
    rw [longestPat, ih h2]
    cases hl : l.head? with
    | none => rfl
    | some q =>
      have := h1 q (List.mem_of_mem_head? hl)
      simp only [List.head?_cons]
      rw [if_neg (by omega)]

/-- The retained patterns that are prefixes of `x` are registered in strictly decreasing length. -/
theorem prefPats_retained_sorted {P : List (Pat V)} (hnd : (P.map (·.key)).Nodup) (x : List Nat) :
    (prefPats (retained P) x).Pairwise (fun a b => b.key.length < a.key.length) := by
  have h1 := retained_pairwise P
  have h2 : (retained P).Pairwise (fun a b => a.key ≠ b.key) :=
    List.pairwise_map.1 (retained_nodup hnd)
  have h3 := (h1.imp₂ (fun a b (hab : ¬ (a.key <+: b.key ∧ a.key ≠ b.key)) (hne : a.key ≠ b.key) =>
    (show ¬ a.key <+: b.key from fun hp => hab ⟨hp, hne⟩)) h2)
  unfold prefPats
  refine List.Pairwise.imp_of_mem ?_ (h3.filter _)
  intro a b ha hb hab
  simp only [ne_eq, List.mem_filter, decide_eq_true_eq] at ha hb
  apply Classical.byContradiction
  intro hlt
  exact hab (List.prefix_of_prefix_length_le ha.2.2 hb.2.2 (by omega))

/-- E(ii): leftmost-first search is leftmost-longest search over the retained patterns. -/
theorem specLF_eq_specLL_retained {P : List (Pat V)} (hv : ValidPats P) (h : List Nat) :
    specLF P h = specLL (retained P) h := by
  unfold specLF specLL
  refine specLeftmostGo_congr (fun x => ?_) h 0 0
  rw [longestPat_eq_head? (prefPats_retained_sorted hv.nodup x),
    head?_prefPats_retained hv.key_ne x]

end Daac

/-
Translation tie, the byte-wise builder END TO END: the GENERATED pipeline

  `NfaBuilder::new` → `add` (fold) → `build_fails` / `build_fails_leftmost` → `build_outputs`
    → `DoubleArrayAhoCorasickBuilder::build_double_array`

(Daac/Gen/Nfa.lean from `src/nfa_builder.rs`, Daac/Gen/BuildB.lean from `src/bytewise/builder.rs`)
computes the state table of the hand-written model `buildDA .bytewise` (Daac/Model/Build.lean), up to
panic texts.  This file closes the two links left open at the end of Proofs/TieD.lean:

 (a) `nfaRep_of_sparse`: the conclusion of `Tie.F.sparse_nfa_refines` (path-labelled representation
     `Tie.N.Rep` + `FailRel` / `OposRel`) gives the flat `Tie.D.NfaRep` the layout tie consumes, with
     `ido u := (idAt g.states 0 u).getD 0`.  The missing fact "every state but the dead one represents
     a node" is the invariant `Reach` of the translated insertion code (Proofs/TiePReach.lean); the
     exact size `states.size = t.size + 1` follows by counting.
 (b) `failNodes_buildNfa`: the fail targets of the model NFA are trie nodes.
-/
import Daac.Proofs.TieFAll
import Daac.Proofs.TieD
import Daac.Proofs.TiePReach
import Daac.Proofs.NfaLm
namespace Daac.Tie.P
open Daac Daac.Gen Daac.Gen.N Daac.Tie.N Daac.Tie.F Daac.Tie.D Daac.Tie.H

variable {V : Type}

/-! ### (a) `NfaRep` from `Rep` + `Reach` -/

/-- The total id function: the state reached along `u` (0 off the trie). -/
def idoOf (st : Tie.N.St V) (u : List Nat) : Nat := (idAt st 0 u).getD 0

theorem idoOf_eq {st : Tie.N.St V} {u : List Nat} {i : Nat} (h : idAt st 0 u = some i) : idoOf st u = i := by
  simp [idoOf, h]

section rep
variable {st : Tie.N.St V} {pth : Pth} {t : Trie V}

theorem idAt_of_node (hrep : Rep st pth t 0 []) {u : List Nat} (hu : t.hasNode u = true) :
    ∃ i n, idAt st 0 u = some i ∧ t.walk u = some n ∧ Rep st pth n i u := by
  unfold Trie.hasNode at hu
  cases hw : t.walk u with
  | none => rw [hw] at hu; simp at hu
  | some n =>
    obtain ⟨i, hi, hr⟩ := idAt_some_of_walk hrep hw
    exact ⟨i, n, hi, rfl, hr⟩

theorem node_of_idAt (hrep : Rep st pth t 0 []) {u : List Nat} {i : Nat} (hi : idAt st 0 u = some i) :
    t.hasNode u = true := by
  obtain ⟨n, hw, _⟩ := walk_some_of_idAt hrep hi
  simp [Trie.hasNode, hw]

theorem idAt_ne_dead (hrep : Rep st pth t 0 []) (hdead : pth 1 = none) {u : List Nat} {i : Nat}
    (hi : idAt st 0 u = some i) : i ≠ 1 := by
  rintro rfl
  have := idAt_pth hrep hi
  rw [hdead] at this
  cases this

/-- Exact state count: the dead state plus one state per node. -/
theorem size_eq (hrep : Rep st pth t 0 []) (hdead : pth 1 = none) (hr : Reach st) :
    st.size = t.size + 1 := by
  have hs : t.Sorted := rep_sorted t 0 [] hrep
  have hmem : ∀ u, u ∈ t.paths [] ↔ t.hasNode u = true := fun u => Trie.mem_paths_nil t hs u
  rw [Trie.size_eq_length_paths t []]
  apply Nat.le_antisymm
  · -- every id is the dead one or the id of a node
    have hsub : List.range st.size ⊆ 1 :: (t.paths []).map (idoOf st) := by
      intro i hi
      have hi := List.mem_range.mp hi
      by_cases h1 : i = 1
      · subst h1; simp
      · obtain ⟨u, hu⟩ := hr.2 i hi h1
        refine List.mem_cons_of_mem _ (List.mem_map.mpr ⟨u, (hmem u).mpr (node_of_idAt hrep hu), idoOf_eq hu⟩)
    have := List.Nodup.length_le_of_subset List.nodup_range hsub
    simpa using this
  · -- the nodes are injectively numbered, off the dead id
    obtain ⟨ids, h1, h2, h3⟩ := paths_ids hrep (t.paths []) (Trie.nodup_paths t hs [])
      (fun u hu => (hmem u).mp hu)
    have hnd : (1 :: ids).Nodup := by
      rw [List.nodup_cons]
      refine ⟨fun hm => ?_, h2⟩
      obtain ⟨_, u, _, hu⟩ := h3 1 hm
      exact idAt_ne_dead hrep hdead hu rfl
    have hsub : (1 :: ids) ⊆ List.range st.size := by
      intro i hi
      rcases List.mem_cons.mp hi with rfl | hi
      · exact List.mem_range.mpr (by have := hr.1; omega)
      · exact List.mem_range.mpr (h3 i hi).1
    have := List.Nodup.length_le_of_subset hnd hsub
    simp only [List.length_cons, List.length_range, h1] at this
    exact this

/-- The edge list of the state of node `u` is the byte-wise builder's edge list, ids through `idoOf`. -/
theorem edges_eq {u : List Nat} {i : Nat} {n : Trie V}
    (hi : idAt st 0 u = some i) (hw : t.walk u = some n) {s : NfaBuilderState V} (hs : st[i]? = some s)
    (hk : RepK st pth n.kids u 0 s.edges) :
    s.edges = (LayB.edgesB t u).map (fun e => (e.1, idoOf st e.2)) := by
  have h1 : s.edges = s.edges.map (fun e => (e.1, idoOf st (u ++ [e.1]))) := by
    conv => lhs; rw [← List.map_id s.edges]
    apply List.map_congr_left
    rintro ⟨l, cid⟩ hm
    have hg := (RepK.get_mem n.kids u 0 s.edges hk l cid hm).1
    have : idAt st 0 (u ++ [l]) = some cid := by rw [idAt_snoc u l i s hi hs]; exact hg
    simp [idoOf_eq this]
  have h2 : (LayB.edgesB t u).map (fun e => (e.1, idoOf st e.2))
      = (s.edges.map (·.1)).map (fun c => (c, idoOf st (u ++ [c]))) := by
    unfold LayB.edgesB
    rw [childPaths_eq hw, RepK.labels n.kids u 0 s.edges hk]
    simp only [List.map_map]
    apply List.map_congr_left
    intro c _
    simp
  rw [h2, List.map_map]
  exact h1

end rep

/-- (a) The flat representation consumed by the layout tie, from the path-labelled one: `g` is the
builder after the insertion fold (`Rep`, dead state unlabelled, `Reach`), `g2` the builder after the
fail and output passes (same shape; `fail` / `output_pos` related to the model NFA `nfa`). -/
theorem nfaRep_of_sparse (g g2 : NfaBuilder V) (t : Trie V) (nfa : Nfa V) (pth : Pth)
    (hrep : Rep g.states pth t 0 []) (hdead : pth 1 = none) (hr : Reach g.states)
    (hsh : SameShape g.states g2.states)
    (hnode : ∀ u i, idAt g.states 0 u = some i → ∃ s : NfaBuilderState V, g2.states[i]? = some s ∧
      FailRel g.states (nfa.fail.get u) s.fail ∧ OposRel s.output_pos (nfa.out.opos.getD u 0)) :
    NfaRep g2 t nfa (idoOf g.states) where
  root := by simp [idoOf, idAt, Gen.rootStateId]
  inj := by
    intro u w hu hw he
    obtain ⟨i, _, hi, _, _⟩ := idAt_of_node hrep hu
    obtain ⟨j, _, hj, _, _⟩ := idAt_of_node hrep hw
    rw [idoOf_eq hi, idoOf_eq hj] at he
    subst he
    exact idAt_inj hrep hi hj
  neDead := by
    intro u hu
    obtain ⟨i, _, hi, _, _⟩ := idAt_of_node hrep hu
    rw [idoOf_eq hi]
    exact idAt_ne_dead hrep hdead hi
  size := by rw [hsh.1]; exact size_eq hrep hdead hr
  onto := by
    intro i hi h1
    rw [hsh.1] at hi
    obtain ⟨u, hu⟩ := hr.2 i hi h1
    exact ⟨u, node_of_idAt hrep hu, idoOf_eq hu⟩
  node := by
    intro u hu
    obtain ⟨i, n, hi, hw, hrn⟩ := idAt_of_node hrep hu
    obtain ⟨s, hs, _, hk⟩ := rep_get hrn
    obtain ⟨s2, hs2, hf, ho⟩ := hnode u i hi
    obtain ⟨s', hs', he, _⟩ := hsh.2 i s hs
    rw [hs2] at hs'
    cases hs'
    rw [idoOf_eq hi]
    refine ⟨s2, hs2, ?_, ?_, ?_⟩
    · rw [he]; exact edges_eq hi hw hs hk
    · cases hfu : nfa.fail.get u with
      | dead => rw [hfu] at hf; exact hf
      | node w =>
        rw [hfu] at hf
        have hf : idAt g.states 0 w = some s2.fail := hf
        simp [idoOf_eq hf]
    · unfold OposRel at ho
      rw [ho]
      split <;> simp_all

/-! ### (b) The fail targets of the model NFA are nodes -/

theorem failNodes_of_trieSem {t : Trie V} {P : List (LPat V)} (hS : TrieSem t P) (hsort : t.Sorted)
    (leftmost : Bool) : FailNodes t (buildNfa t leftmost) := by
  intro u w hu hf
  have hu' := (hS.nodes u).mp hu
  have hw : lps (nodeList P) u ∈ nodeList P := (lps_spec P u).2.1
  cases leftmost with
  | false =>
    have := failStd_eq_lps' hS u hu'
    have e : (buildNfa t false).fail = buildFailMap t false := rfl
    rw [e, this] at hf
    cases hf
    exact (hS.nodes _).mpr hw
  | true =>
    have e : (buildNfa t true).fail = buildFailMap t true := rfl
    rw [e] at hf
    by_cases hu0 : u = []
    · subst hu0
      have hb : buildFailMap t true = t.queue.foldl (failStepLm t) {} := by simp [buildFailMap]
      have hI := lmInv_foldl hS t.queue [] {} (by simp) (lmInv_init P)
      rw [hb, hI.root] at hf
      cases hf
      exact Trie.hasNode_nil t
    · have := failLm_char hS hsort u hu' hu0
      rw [this] at hf
      split at hf
      · split at hf
        · cases hf
        · cases hf; exact (hS.nodes _).mpr hw
      · cases hf; exact (hS.nodes _).mpr hw

/-- The semantic reading of a built trie, for every match kind (`P'`: the retained patterns). -/
theorem trieSem_exists (kind : Nat) (P : List (LPat V)) (hk : keysOk P) (t : Trie V)
    (ht : buildTrie kind P = .ok t) : ∃ P', List.Sublist P' P ∧ TrieSem t P' := by
  by_cases h2 : kind = 2
  · subst h2
    exact ⟨retainedL P, retainedL_sublist P, buildTrie_trieSem_lf P t ht hk⟩
  · exact ⟨P, List.Sublist.refl P, buildTrie_trieSem kind h2 P t ht hk⟩

/-- (b) for the trie of a successful `buildTrie`. -/
theorem failNodes_buildNfa (kind : Nat) (P : List (LPat V)) (hk : keysOk P) (t : Trie V)
    (ht : buildTrie kind P = .ok t) (leftmost : Bool) : FailNodes t (buildNfa t leftmost) := by
  obtain ⟨P', _, hS⟩ := trieSem_exists kind P hk t ht
  exact failNodes_of_trieSem hS (buildTrie_sorted kind P t ht) leftmost

/-! ### (c) Side conditions of the layout tie from the input -/

/-- Byte patterns give byte labels on every node. -/
theorem bytes_of_buildTrie (kind : Nat) (P : List (LPat V)) (hk : keysOk P) (t : Trie V)
    (ht : buildTrie kind P = .ok t) (hb : ∀ p ∈ P, ∀ c ∈ p.key, c < 256) :
    ∀ u, t.hasNode u = true → ∀ c ∈ u, c < 256 := by
  obtain ⟨P', hsub, hS⟩ := trieSem_exists kind P hk t ht
  intro u hu c hc
  rcases mem_nodeList.mp ((hS.nodes u).mp hu) with rfl | ⟨p, hp, hpre⟩
  · simp at hc
  · exact hb p (hsub.subset hp) c (hpre.subset hc)

/-- With one byte per label, `blen` is the key length, so it vanishes exactly on the empty key. -/
theorem keysOk_of_hlen (P : List (LPat V))
    (hlen : ∀ p ∈ P, (p.key.map (fun _ => 1)).sum = p.blen ∧ p.blen ≤ 4294967295) : keysOk P := by
  intro p hp
  have h := (hlen p hp).1
  have e : (p.key.map (fun _ => 1)).sum = p.key.length := by
    induction p.key with
    | nil => rfl
    | cons a l ih => simp only [List.map_cons, List.sum_cons, List.length_cons, ih]; omega
  rw [e] at h
  rw [← h]
  exact List.length_eq_zero_iff

/-! ### (d) End to end -/

/-- Core of the end-to-end statement, keeping the model accumulator `a` of the insertion fold. -/
theorem pipeline_refines (kind : Nat) (cfg : Cfg) (mapper : Mapper) (P : List (LPat V))
    (hnfb : 1 ≤ cfg.nfb) (hbytes : ∀ p ∈ P, ∀ c ∈ p.key, c < 256)
    (hsz : 2 + (P.map (·.key.length)).sum ≤ 4294967295)
    (hlen : ∀ p ∈ P, (p.key.map (fun _ => 1)).sum = p.blen ∧ p.blen ≤ 4294967295)
    (g : NfaBuilder V) (hadd : addAllGen (fun _ => 1) (NfaBuilder.new kind) P = .ok g) (hl : g.len ≠ 0) :
    ∃ a q g1 g2, (NfaAcc.init : NfaAcc V).addAll (kind == 2) P = .ok a ∧ a.len = g.len ∧
      failPass kind g = .ok (q, g1) ∧ NfaBuilder.build_outputs g1 q = .ok ((), g2) ∧
      g2.states.size = a.trie.size + 1 ∧ g.states.size = a.trie.size + 1 ∧
      OutsRel g2.outputs (buildNfa a.trie (kind != 0)).out.outs ∧
      norm ((DB.Builder.build_double_array ⟨#[], kind, cfg.nfb⟩ g2).map (·.2.states))
        = norm (buildLayout .bytewise cfg mapper a.trie (buildNfa a.trie (kind != 0))) := by
  have hk := keysOk_of_hlen P hlen
  obtain ⟨t, _, q, g1, g2, ht, _, hfp, hbo, hsh, _, hnode, houts⟩ :=
    sparse_nfa_refines (fun _ => 1) kind P g hsz hlen hadd hl
  have hb := build_refines (fun _ => 1) kind P hsz hlen
  rw [hadd] at hb
  cases hm : (NfaAcc.init : NfaAcc V).addAll (kind == 2) P with
  | error e => rw [hm] at hb; exact hb.elim
  | ok a =>
    rw [hm] at hb
    obtain ⟨pth, hrep, hlen', _, _, hdead⟩ : RepAcc g a := hb
    have hal : a.len ≠ 0 := by rw [← hlen']; exact hl
    have hta : t = a.trie := by
      have : buildTrie kind P = .ok a.trie := by simp [buildTrie, hm, hal]
      rw [ht] at this
      cases this; rfl
    subst hta
    have hr : Reach g.states := addAllGen_reach (fun _ => 1) P _ g hadd (new_reach kind)
    have R := nfaRep_of_sparse g g2 a.trie (buildNfa a.trie (kind != 0)) pth hrep hdead hr hsh hnode
    refine ⟨a, q, g1, g2, rfl, hlen'.symm, hfp, hbo, R.size, by rw [← hsh.1]; exact R.size, houts, ?_⟩
    exact build_double_array_refines cfg mapper a.trie _ g2 _ R
      (failNodes_buildNfa kind P hk a.trie ht _) (buildTrie_sorted kind P a.trie ht)
      (bytes_of_buildTrie kind P hk a.trie ht hbytes) hnfb ⟨#[], kind, cfg.nfb⟩ rfl rfl

/-- END TO END, against the model passes.  For every collection of byte patterns within the `u32`
scale: if the translated insertion fold (`NfaBuilder::new`, then `add` per pattern) succeeds and
registered a pattern, then the model's `buildTrie` succeeds with some trie `t`, the translated fail
pass and `build_outputs` succeed, and the translated byte-wise `build_double_array`, started from the
empty builder with `cfg.nfb` free blocks, yields the state table of the model's `buildLayout .bytewise`
on `t` and `buildNfa t (kind != 0)` (for any mapper: the byte-wise layout ignores it), up to panic
texts; the output records agree (`OutsRel`) and there is one state per node plus the dead state. -/
theorem generated_bytewise_build_eq_model (kind : Nat) (cfg : Cfg) (mapper : Mapper) (P : List (LPat V))
    (hnfb : 1 ≤ cfg.nfb) (hbytes : ∀ p ∈ P, ∀ c ∈ p.key, c < 256)
    (hsz : 2 + (P.map (·.key.length)).sum ≤ 4294967295)
    (hlen : ∀ p ∈ P, (p.key.map (fun _ => 1)).sum = p.blen ∧ p.blen ≤ 4294967295)
    (g : NfaBuilder V) (hadd : addAllGen (fun _ => 1) (NfaBuilder.new kind) P = .ok g) (hl : g.len ≠ 0) :
    ∃ t q g1 g2, buildTrie kind P = .ok t ∧
      failPass kind g = .ok (q, g1) ∧ NfaBuilder.build_outputs g1 q = .ok ((), g2) ∧
      g2.states.size = t.size + 1 ∧
      OutsRel g2.outputs (buildNfa t (kind != 0)).out.outs ∧
      norm ((DB.Builder.build_double_array ⟨#[], kind, cfg.nfb⟩ g2).map (·.2.states))
        = norm (buildLayout .bytewise cfg mapper t (buildNfa t (kind != 0))) := by
  obtain ⟨a, q, g1, g2, hm, hal, hfp, hbo, hs2, _, houts, hfin⟩ :=
    pipeline_refines kind cfg mapper P hnfb hbytes hsz hlen g hadd hl
  have hal' : a.len ≠ 0 := by rw [hal]; exact hl
  exact ⟨a.trie, q, g1, g2, by simp [buildTrie, hm, hal'], hfp, hbo, hs2, houts, hfin⟩

/-- END TO END, against `buildDA .bytewise` itself (`cfg.kind = kind`; `g.len ≤ u24Max` is the pattern
count test of `build_with_values`, which sits between the sparse NFA and `build_double_array` and is
not part of the translated units): the translated pipeline's state table is the `states` field of the
model automaton up to panic texts, and on success the model automaton's `outputs` are the translated
builder's output records, `numStates = g.states.size - 1`, `kind = kind`. -/
theorem generated_bytewise_build_eq_buildDA (kind : Nat) (cfg : Cfg) (P : List (LPat V))
    (hkind : cfg.kind = kind) (hnfb : 1 ≤ cfg.nfb) (hbytes : ∀ p ∈ P, ∀ c ∈ p.key, c < 256)
    (hsz : 2 + (P.map (·.key.length)).sum ≤ 4294967295)
    (hlen : ∀ p ∈ P, (p.key.map (fun _ => 1)).sum = p.blen ∧ p.blen ≤ 4294967295)
    (g : NfaBuilder V) (hadd : addAllGen (fun _ => 1) (NfaBuilder.new kind) P = .ok g) (hl : g.len ≠ 0)
    (h24 : g.len ≤ u24Max) :
    ∃ q g1 g2, failPass kind g = .ok (q, g1) ∧ NfaBuilder.build_outputs g1 q = .ok ((), g2) ∧
      norm ((DB.Builder.build_double_array ⟨#[], kind, cfg.nfb⟩ g2).map (·.2.states))
        = norm ((buildDA .bytewise cfg P).map (·.states)) ∧
      ∀ da, buildDA .bytewise cfg P = .ok da →
        OutsRel g2.outputs da.outputs ∧ da.numStates = g.states.size - 1 ∧ da.kind = kind := by
  obtain ⟨a, q, g1, g2, hm, hal, hfp, hbo, _, hs, houts, hfin⟩ :=
    pipeline_refines kind cfg (⟨#[], 0⟩ : Mapper) P hnfb hbytes hsz hlen g hadd hl
  have hal' : a.len ≠ 0 := by rw [hal]; exact hl
  have h0 : ¬ cfg.nfb = 0 := by omega
  have h24' : ¬ a.len > u24Max := by rw [hal]; omega
  refine ⟨q, g1, g2, hfp, hbo, ?_, ?_⟩
  · rw [hfin]
    subst hkind
    simp only [buildDA, h0, if_false, hm, hal', h24', and_false]
    cases buildLayout .bytewise cfg (⟨#[], 0⟩ : Mapper) a.trie (buildNfa a.trie (cfg.kind != 0)) <;> rfl
  · intro da hda
    subst hkind
    simp only [buildDA, h0, if_false, hm, hal', h24', and_false] at hda
    cases hL : buildLayout .bytewise cfg (⟨#[], 0⟩ : Mapper) a.trie (buildNfa a.trie (cfg.kind != 0)) with
    | error e => rw [hL] at hda; cases hda
    | ok states =>
      rw [hL] at hda
      cases hda
      exact ⟨houts, by simp only; omega, rfl⟩

/-! ### (e) The whole pipeline as one function -/

/-- The byte-wise `build_with_values` over the translated units: `build_sparse_nfa` (insertion fold,
the two pattern-count tests, the fail pass selected by the match kind, `build_outputs`) followed by
`build_double_array` from the empty builder.  The sequencing is hand-written glue (as `addAllGen` and
`failPass` are); every unit it calls is generated from the Rust text. -/
def genBuildB (kind nfb : Nat) (P : List (LPat V)) : Except BuildErr (Array St) :=
  match addAllGen (fun _ => 1) (NfaBuilder.new kind) P with
  | .error e => .error e
  | .ok g =>
    if g.len = 0 then .error .invalidArgument else
    if g.len > u24Max then .error .automatonScale else
    match failPass kind g with
    | .error e => .error e
    | .ok (q, g1) =>
      match NfaBuilder.build_outputs g1 q with
      | .error e => .error e
      | .ok (_, g2) => (DB.Builder.build_double_array ⟨#[], kind, nfb⟩ g2).map (·.2.states)

/-- END TO END as one equation: on byte patterns within the `u32` scale, the translated byte-wise
pipeline and the model's `buildDA .bytewise` fail alike (same error, up to panic texts) or both
succeed with the same state table. -/
theorem genBuildB_eq_buildDA (kind : Nat) (cfg : Cfg) (P : List (LPat V))
    (hkind : cfg.kind = kind) (hnfb : 1 ≤ cfg.nfb) (hbytes : ∀ p ∈ P, ∀ c ∈ p.key, c < 256)
    (hsz : 2 + (P.map (·.key.length)).sum ≤ 4294967295)
    (hlen : ∀ p ∈ P, (p.key.map (fun _ => 1)).sum = p.blen ∧ p.blen ≤ 4294967295) :
    norm (genBuildB kind cfg.nfb P) = norm ((buildDA .bytewise cfg P).map (·.states)) := by
  have h0 : ¬ cfg.nfb = 0 := by omega
  have hb := build_refines (fun _ => 1) kind P hsz hlen
  unfold genBuildB
  cases hadd : addAllGen (fun _ => 1) (NfaBuilder.new kind : NfaBuilder V) P with
  | error e =>
    rw [hadd] at hb
    cases hm : (NfaAcc.init : NfaAcc V).addAll (kind == 2) P with
    | ok a => rw [hm] at hb; exact hb.elim
    | error e' =>
      rw [hm] at hb
      have hb : e = e' := hb
      subst hb hkind
      simp only [buildDA, h0, if_false, hm]
      rfl
  | ok g =>
    rw [hadd] at hb
    cases hm : (NfaAcc.init : NfaAcc V).addAll (kind == 2) P with
    | error e' => rw [hm] at hb; exact hb.elim
    | ok a =>
      rw [hm] at hb
      obtain ⟨_, _, hlen', _⟩ : RepAcc g a := hb
      simp only
      by_cases hl : g.len = 0
      · subst hkind
        have : a.len = 0 := by rw [← hlen']; exact hl
        simp only [hl, if_true, buildDA, h0, if_false, hm, this]
        rfl
      · by_cases h24 : g.len > u24Max
        · subst hkind
          have e1 : ¬ a.len = 0 := by rw [← hlen']; exact hl
          have e2 : a.len > u24Max := by rw [← hlen']; exact h24
          simp only [hl, h24, if_true, if_false, buildDA, h0, hm, e1, e2, and_self]
          rfl
        · obtain ⟨q, g1, g2, hfp, hbo, hfin, _⟩ :=
            generated_bytewise_build_eq_buildDA kind cfg P hkind hnfb hbytes hsz hlen g hadd hl (by omega)
          simp only [hl, h24, if_false, hfp, hbo]
          exact hfin

end Daac.Tie.P

#print axioms Daac.Tie.P.nfaRep_of_sparse
#print axioms Daac.Tie.P.failNodes_buildNfa
#print axioms Daac.Tie.P.generated_bytewise_build_eq_model
#print axioms Daac.Tie.P.generated_bytewise_build_eq_buildDA
#print axioms Daac.Tie.P.genBuildB_eq_buildDA

/-
From the evaluated invariant `DA.tableInv` to the semantic interface `StdSem` (StdIface.lean).
Core Lean only.
-/
import Daac.Proofs.StdIface
namespace Daac
set_option linter.unusedSectionVars false
variable {V : Type} [DecidableEq V]

/-! ### The check passes at a node (for some fuel) -/

def Good (da : DA V) (sig : List Nat) (u : List Nat) (i : Nat) (R : List (LPat V)) : Prop :=
  ∃ f, da.checkNodeStd sig f i u R = true

theorem Good.unfold {da : DA V} {sig u i} {R : List (LPat V)} (h : Good da sig u i R) :
    ∃ st, da.st i = .ok st ∧
      (∀ p ∈ R, ∀ k ks, p.key = k :: ks → k ∈ sig) ∧
      (u ≠ [] → st.fail = da.lpsIdx u) ∧
      (u = [] → st.opos = 0 ∧ terminal R = none) ∧
      (u ≠ [] → da.outOk st R = true) ∧
      (∀ c ∈ sig, (stepRes R c = [] ∧ da.childL i c = .ok none) ∨
        (stepRes R c ≠ [] ∧ ∃ j, da.childL i c = .ok (some j) ∧ j ≠ rootIdx ∧ j ≠ deadIdx ∧
          Good da sig (u ++ [c]) j (stepRes R c))) := by
  obtain ⟨f, hf⟩ := h
  cases f with
  | zero => simp [DA.checkNodeStd] at hf
  | succ f =>
    unfold DA.checkNodeStd at hf
    split at hf
    · exact absurd hf (by simp)
    · rename_i st hst
      simp only [Bool.and_eq_true, List.all_eq_true, Bool.or_eq_true] at hf
      obtain ⟨⟨⟨hheads, hfail⟩, hout⟩, hch⟩ := hf
      refine ⟨st, hst, ?_, ?_, ?_, ?_, ?_⟩
      · intro p hp k ks hk
        have := hheads p hp
        simp only [hk] at this
        simpa using this
      · intro hu
        rcases hfail with h1 | h1
        · simp at h1; exact absurd h1 hu
        · simpa using h1
      · intro hu
        subst hu
        simpa using hout
      · intro hu
        have : u.isEmpty = false := by cases u <;> simp_all
        simpa [this] using hout
      · intro c hc
        have := hch c hc
        split at this
        · exact absurd this (by simp)
        · rename_i hcl
          left; exact ⟨by simpa using this, hcl⟩
        · rename_i j hcl
          simp only [Bool.and_eq_true, Bool.not_eq_true', bne_iff_ne, ne_eq] at this
          right
          refine ⟨?_, j, hcl, this.1.1.2, this.1.2, ⟨f, this.2⟩⟩
          intro h0; simp [h0] at this

/-! ### Labels -/

theorem code_isSome_of_mem_sigma {da : DA V} {c : Nat} (h : c ∈ da.sigma) : (da.code c).isSome := by
  unfold DA.sigma at h
  unfold DA.code
  split at h
  · rename_i hv; simp [hv]
  · rename_i hv
    have := (List.mem_filter.1 h).2
    simpa [DA.code, hv] using this

theorem childL_of_code_none {da : DA V} {c : Nat} (i : Nat) (h : da.code c = none) :
    da.childL i c = .ok none := by
  simp [DA.childL, h]

theorem Good.head_mem {da : DA V} {sig u i} {R : List (LPat V)} (h : Good da sig u i R)
    {c : Nat} (hc : stepRes R c ≠ []) : c ∈ sig := by
  obtain ⟨st, _, hh, _⟩ := h.unfold
  obtain ⟨p, hp⟩ := List.exists_mem_of_ne_nil _ hc
  obtain ⟨q, hq, hk, _⟩ := mem_stepRes.1 hp
  exact hh q hq _ _ hk

theorem Good.step {da : DA V} {u i} {R : List (LPat V)} (h : Good da da.sigma u i R)
    {c : Nat} (hc : LabelOk da c) :
    (stepRes R c = [] ∧ da.childL i c = .ok none) ∨
      (stepRes R c ≠ [] ∧ ∃ j, da.childL i c = .ok (some j) ∧ j ≠ rootIdx ∧ j ≠ deadIdx ∧
        Good da da.sigma (u ++ [c]) j (stepRes R c)) := by
  rcases hc with hc | hc
  · obtain ⟨st, _, _, _, _, _, hch⟩ := h.unfold
    exact hch c hc
  · left
    refine ⟨?_, childL_of_code_none i hc⟩
    apply Classical.byContradiction
    intro hne
    have := code_isSome_of_mem_sigma (h.head_mem hne)
    simp [hc] at this

theorem resid_eq_nil_of_stepRes {R : List (LPat V)} {c : Nat} (w : List Nat)
    (h : stepRes R c = []) : resid R (c :: w) = [] := by
  rw [resid_cons, h, resid_nil_pats]

/-! ### Walking -/

theorem Good.walk_some {da : DA V} {sig : List Nat} : ∀ (w : List Nat) {u : List Nat} {i : Nat}
    {R : List (LPat V)}, Good da sig u i R → (w = [] ∨ resid R w ≠ []) →
    ∃ j, da.walkFrom i w = some j ∧ Good da sig (u ++ w) j (resid R w) ∧
      (w ≠ [] → j ≠ rootIdx) ∧ (∀ c ∈ w, c ∈ sig)
  | [], u, i, R, h, _ => ⟨i, rfl, by simpa [resid] using h, by simp, by simp⟩
  | c :: w, u, i, R, h, hw => by
    have hne : resid R (c :: w) ≠ [] := by simpa using hw
    have hs : stepRes R c ≠ [] := fun h0 => hne (resid_eq_nil_of_stepRes w h0)
    have hc : c ∈ sig := h.head_mem hs
    obtain ⟨st, _, _, _, _, _, hch⟩ := h.unfold
    rcases hch c hc with ⟨h0, _⟩ | ⟨_, j, hcl, hjr, _, hg⟩
    · exact absurd h0 hs
    · have hw' : w = [] ∨ resid (stepRes R c) w ≠ [] := by
        by_cases hw0 : w = []
        · exact Or.inl hw0
        · exact Or.inr (by rwa [resid_cons] at hne)
      obtain ⟨k, hk, hgk, hkr, hsig⟩ := Good.walk_some w hg hw'
      refine ⟨k, by simp [DA.walkFrom, hcl, hk], ?_, ?_, ?_⟩
      · rw [resid_cons]; simpa [List.append_assoc] using hgk
      · intro _
        by_cases hw0 : w = []
        · subst hw0; simp [DA.walkFrom] at hk; exact hk ▸ hjr
        · exact hkr hw0
      · intro d hd
        rcases List.mem_cons.1 hd with rfl | hd
        · exact hc
        · exact hsig d hd

theorem Good.walk_none {da : DA V} : ∀ (w : List Nat) {u : List Nat} {i : Nat}
    {R : List (LPat V)}, Good da da.sigma u i R → (∀ c ∈ w, LabelOk da c) → w ≠ [] →
    resid R w = [] → da.walkFrom i w = none
  | [], _, _, _, _, _, hw, _ => absurd rfl hw
  | c :: w, u, i, R, h, hl, _, hr => by
    rcases h.step (hl c (by simp)) with ⟨_, hcl⟩ | ⟨hs, j, hcl, _, _, hg⟩
    · simp [DA.walkFrom, hcl]
    · have hw0 : w ≠ [] := by
        rintro rfl
        exact hs (by simpa [resid] using hr)
      have := Good.walk_none w hg (fun d hd => hl d (by simp [hd])) hw0 (by rwa [resid_cons] at hr)
      simp [DA.walkFrom, hcl, this]

/-! ### Nodes -/

theorem idx_nil (da : DA V) : da.idx [] = rootIdx := rfl

theorem idx_of_walk {da : DA V} {u : List Nat} {j : Nat} (h : da.walk u = some j) : da.idx u = j := by
  simp [DA.idx, h]

theorem good_root {da : DA V} {P : List (LPat V)} (hT : da.tableInv P = true) :
    Good da da.sigma [] rootIdx P := ⟨_, hT⟩

theorem node_good {da : DA V} {P : List (LPat V)} (hT : da.tableInv P = true) {u : List Nat}
    (hu : u ∈ nodeList P) :
    ∃ j, da.walk u = some j ∧ Good da da.sigma u j (resid P u) ∧ (u ≠ [] → j ≠ rootIdx) ∧
      (∀ c ∈ u, c ∈ da.sigma) := by
  have hw : u = [] ∨ resid P u ≠ [] := by
    rcases mem_nodeList.1 hu with h | h
    · exact Or.inl h
    · exact Or.inr (resid_ne_nil_iff.2 h)
  simpa [DA.walk] using Good.walk_some u (good_root hT) hw

theorem walk_isSome_iff {da : DA V} {P : List (LPat V)} (hT : da.tableInv P = true) {s : List Nat}
    (hl : ∀ c ∈ s, LabelOk da c) : (da.walk s).isSome ↔ s ∈ nodeList P := by
  constructor
  · intro h
    apply Classical.byContradiction
    intro hs
    have hs0 : s ≠ [] := by rintro rfl; exact hs (by simp [nodeList])
    have hr : resid P s = [] := by
      apply Classical.byContradiction
      intro hr
      exact hs (mem_nodeList.2 (Or.inr (resid_ne_nil_iff.1 hr)))
    have := Good.walk_none s (good_root hT) hl hs0 hr
    simp [DA.walk, this] at h
  · intro h
    obtain ⟨j, hj, _⟩ := node_good hT h
    simp [hj]

theorem head_filterMap_walk (da : DA V) (N : List (List Nat)) :
    ∀ (L : List (List Nat)), (∀ s ∈ L, (da.walk s).isSome ↔ s ∈ N) →
    ((L.filterMap da.walk).head?).getD rootIdx
      = da.idx ((L.find? (fun s => decide (s ∈ N))).getD [])
  | [], _ => by simp [idx_nil]
  | s :: L, h => by
    have ih := head_filterMap_walk da N L (fun t ht => h t (by simp [ht]))
    rw [List.head?_filterMap] at ih ⊢
    by_cases hs : s ∈ N
    · have := (h s (by simp)).2 hs
      obtain ⟨j, hj⟩ := Option.isSome_iff_exists.1 this
      simp [hj, hs, DA.idx]
    · have : da.walk s = none := by
        cases hw : da.walk s with
        | none => rfl
        | some j => exact absurd ((h s (by simp)).1 (by simp [hw])) hs
      simp [this, hs, ih]

theorem lpsIdx_eq {da : DA V} {P : List (LPat V)} (hT : da.tableInv P = true) {u : List Nat}
    (hu : u ∈ nodeList P) : da.lpsIdx u = da.idx (lps (nodeList P) u) := by
  obtain ⟨_, _, _, _, hsig⟩ := node_good hT hu
  unfold DA.lpsIdx lps lsuf
  apply head_filterMap_walk
  intro s hs
  apply walk_isSome_iff hT
  intro c hc
  left
  apply hsig
  have h1 : s <:+ u.tail := mem_sufs.1 hs
  have h2 : u.tail <:+ u := List.tail_suffix u
  exact (h1.trans h2).subset hc

/-! ### Transitions -/

theorem walkFrom_append (da : DA V) : ∀ (u w : List Nat) (i : Nat),
    da.walkFrom i (u ++ w) = (da.walkFrom i u).bind (fun j => da.walkFrom j w)
  | [], w, i => by simp [DA.walkFrom]
  | c :: u, w, i => by
    simp only [List.cons_append, DA.walkFrom]
    split
    · exact walkFrom_append da u w _
    · simp

theorem lsuf_cons_of_mem {α : Type} [DecidableEq α] {N : List (List α)} {a : α} {t : List α}
    (h : a :: t ∈ N) : lsuf N (a :: t) = a :: t := by
  simp [lsuf, sufs, h]

theorem lsuf_cons_of_not_mem {α : Type} [DecidableEq α] {N : List (List α)} {a : α} {t : List α}
    (h : a :: t ∉ N) : lsuf N (a :: t) = lsuf N t := by
  simp [lsuf, sufs, h]

theorem foldl_max_le (P : List (LPat V)) : ∀ (m : Nat),
    m ≤ P.foldl (fun m p => max m p.key.length) m ∧
      ∀ p ∈ P, p.key.length ≤ P.foldl (fun m p => max m p.key.length) m := by
  induction P with
  | nil => intro m; simp
  | cons q P ih =>
    intro m
    obtain ⟨h1, h2⟩ := ih (max m q.key.length)
    simp only [List.foldl_cons, List.mem_cons, forall_eq_or_imp]
    refine ⟨by omega, by omega, h2⟩

theorem key_length_le_maxKeyLen {P : List (LPat V)} {p : LPat V} (hp : p ∈ P) :
    p.key.length ≤ maxKeyLen P := (foldl_max_le P 0).2 p hp

theorem node_length_le {P : List (LPat V)} {u : List Nat} (hu : u ∈ nodeList P) :
    u.length ≤ maxKeyLen P := by
  rcases mem_nodeList.1 hu with rfl | ⟨p, hp, hpre⟩
  · simp
  · exact Nat.le_trans hpre.length_le (key_length_le_maxKeyLen hp)

theorem stepRes_resid (P : List (LPat V)) (u : List Nat) (c : Nat) :
    stepRes (resid P u) c = resid P (u ++ [c]) := by
  simp [resid]

theorem lps_mem_lt {P : List (LPat V)} {u : List Nat} (hu : u ≠ []) :
    lps (nodeList P) u ∈ nodeList P ∧ (lps (nodeList P) u).length < u.length := by
  obtain ⟨a, b, _⟩ := lsuf_spec (nodeList_prefClosed P).nil_mem u.tail
  refine ⟨b, ?_⟩
  have := a.length_le
  cases u with
  | nil => exact absurd rfl hu
  | cons x u => simp [lps] at this ⊢; omega

theorem nextLoop_ok {da : DA V} {P : List (LPat V)} (hT : da.tableInv P = true) {c cc : Nat}
    (hc : LabelOk da c) (hcc : da.code c = some cc) :
    ∀ (fuel : Nat) (u : List Nat), u ∈ nodeList P → u.length < fuel → ∀ k,
      ∃ k', da.nextLoop fuel (da.idx u) cc k
        = .ok (da.idx (lsuf (nodeList P) (u ++ [c])), k') := by
  intro fuel
  induction fuel with
  | zero => intro u _ h; exact absurd h (Nat.not_lt_zero _)
  | succ fuel ih =>
    intro u hu hlen k
    have hN := nodeList_prefClosed P
    obtain ⟨j, hj, hg, hjr, _⟩ := node_good hT hu
    have hcl : da.child j cc = da.childL j c := by simp [DA.childL, hcc]
    rw [idx_of_walk hj]
    unfold DA.nextLoop
    rw [hcl]
    rcases hg.step hc with ⟨hs, hch⟩ | ⟨hs, j', hch, _, _, _⟩
    · rw [hch]
      rw [stepRes_resid] at hs
      have hnot : u ++ [c] ∉ nodeList P := by
        intro hm
        rcases mem_nodeList.1 hm with h | h
        · simp at h
        · exact (resid_ne_nil_iff.2 h) hs
      by_cases hroot : j = rootIdx
      · have hu0 : u = [] := Classical.byContradiction fun h => hjr h hroot
        subst hu0
        refine ⟨k + 1, ?_⟩
        simp only [hroot, if_true]
        have : lsuf (nodeList P) ([] ++ [c]) = [] := by
          simp only [List.nil_append] at hnot ⊢
          rw [lsuf_cons_of_not_mem hnot, lsuf_nil]
        rw [this, idx_nil]
      · have hu0 : u ≠ [] := by
          rintro rfl
          simp [DA.walk, DA.walkFrom] at hj
          exact hroot hj.symm
        obtain ⟨st, hst, _, hfail, _⟩ := hg.unfold
        simp only [hroot, if_false, hst]
        rw [hfail hu0, lpsIdx_eq hT hu, lsuf_fail hN u c hu0 hnot]
        obtain ⟨hv, hvl⟩ := lps_mem_lt (P := P) hu0
        exact ih _ hv (by omega) (k + 1)
    · rw [hch]
      refine ⟨k + 1, ?_⟩
      have hm : u ++ [c] ∈ nodeList P := by
        rw [stepRes_resid] at hs
        exact mem_nodeList.2 (Or.inr (resid_ne_nil_iff.1 hs))
      rw [lsuf_mem_self hm hN.nil_mem]
      have : da.walk (u ++ [c]) = some j' := by
        unfold DA.walk at hj ⊢
        rw [walkFrom_append, hj]
        simp [DA.walkFrom, hch]
      rw [idx_of_walk this]

theorem next_ok_of_tableInv {da : DA V} {P : List (LPat V)} (hT : da.tableInv P = true)
    (hD : maxKeyLen P < da.states.size) :
    ∀ u ∈ nodeList P, ∀ c, LabelOk da c →
      da.next (da.idx u) c = .ok (da.idx (lsuf (nodeList P) (u ++ [c]))) := by
  intro u hu c hc
  have hN := nodeList_prefClosed P
  cases hcc : da.code c with
  | none =>
    obtain ⟨a, b, _⟩ := lsuf_spec hN.nil_mem (u ++ [c])
    have : lsuf (nodeList P) (u ++ [c]) = [] := by
      rcases List.suffix_concat_iff.1 a with h0 | ⟨t, ht, _⟩
      · exact h0
      · exfalso
        obtain ⟨_, _, _, _, hsig⟩ := node_good hT b
        have := code_isSome_of_mem_sigma (hsig c (by simp [ht]))
        simp [hcc] at this
    rw [this, idx_nil]
    simp [DA.next, DA.nextS, hcc, Except.map]
  | some cc =>
    have hlen : u.length < da.fuel := by
      have := node_length_le hu
      unfold DA.fuel; omega
    obtain ⟨k', hk'⟩ := nextLoop_ok hT hc hcc da.fuel u hu hlen 0
    simp [DA.next, DA.nextS, hcc, hk', Except.map]

/-! ### Output chains -/

theorem sufLPats_nil (P : List (LPat V)) : sufLPats P [] = [] := by
  simp [sufLPats, sufs]

theorem sufLPats_cons (P : List (LPat V)) (a : Nat) (t : List Nat) :
    sufLPats P (a :: t) = P.filter (fun p => p.key = a :: t) ++ sufLPats P t := by
  simp [sufLPats, sufs]

theorem key_mem_nodeList {P : List (LPat V)} {p : LPat V} (hp : p ∈ P) : p.key ∈ nodeList P :=
  mem_nodeList.2 (Or.inr ⟨p, hp, List.prefix_refl _⟩)

theorem sufLPats_lsuf (P : List (LPat V)) :
    ∀ t : List Nat, sufLPats P t = sufLPats P (lsuf (nodeList P) t)
  | [] => by rw [lsuf_nil]
  | a :: t => by
    by_cases h : a :: t ∈ nodeList P
    · rw [lsuf_cons_of_mem h]
    · rw [lsuf_cons_of_not_mem h, sufLPats_cons, ← sufLPats_lsuf P t]
      have : P.filter (fun p => p.key = a :: t) = [] := by
        rw [List.filter_eq_nil_iff]
        intro p hp hk
        simp only [decide_eq_true_eq] at hk
        exact h (hk ▸ key_mem_nodeList hp)
      rw [this, List.nil_append]

theorem filter_key_of_nodup : ∀ {P : List (LPat V)}, (P.map (·.key)).Nodup → ∀ {q : LPat V},
    q ∈ P → P.filter (fun p => p.key = q.key) = [q]
  | [], _, _, hq => by simp at hq
  | r :: P, hk, q, hq => by
    simp only [List.map_cons, List.nodup_cons] at hk
    rcases List.mem_cons.1 hq with rfl | hq
    · have : P.filter (fun p => p.key = q.key) = [] := by
        rw [List.filter_eq_nil_iff]
        intro p hp hpk
        simp only [decide_eq_true_eq] at hpk
        exact hk.1 (hpk ▸ List.mem_map_of_mem hp)
      simp [this]
    · have hne : r.key ≠ q.key := fun e => hk.1 (e ▸ List.mem_map_of_mem hq)
      simp [hne, filter_key_of_nodup hk.2 hq]

theorem chain_ok_of_tableInv {da : DA V} {P : List (LPat V)} (hkeys : (P.map (·.key)).Nodup)
    (hT : da.tableInv P = true) :
    ∀ (n : Nat) (u : List Nat), u.length ≤ n → u ∈ nodeList P → ∃ st, da.st (da.idx u) = .ok st ∧
      ChainIs da st.opos ((sufLPats P u).map (fun p => (p.value, p.blen))) := by
  intro n
  induction n with
  | zero =>
    intro u hlen hu
    have hu0 : u = [] := List.eq_nil_of_length_eq_zero (by omega)
    subst hu0
    obtain ⟨st, hst, _, _, hroot, _⟩ := (good_root hT).unfold
    refine ⟨st, by rw [idx_nil]; exact hst, ?_⟩
    rw [(hroot rfl).1, sufLPats_nil]
    exact ChainIs.nil
  | succ n ih =>
    intro u hlen hu
    cases u with
    | nil => exact ih [] (by simp) hu
    | cons a t =>
      have hu0 : a :: t ≠ [] := by simp
      obtain ⟨j, hj, hg, _, _⟩ := node_good hT hu
      obtain ⟨st, hst, _, hfail, _, hout, _⟩ := hg.unfold
      obtain ⟨hv, hvl⟩ := lps_mem_lt (P := P) hu0
      obtain ⟨fs, hfs, hchain⟩ := ih _ (by simp at hlen hvl; omega) hv
      refine ⟨st, by rw [idx_of_walk hj]; exact hst, ?_⟩
      have hsuf : sufLPats P t = sufLPats P (lps (nodeList P) (a :: t)) := by
        rw [sufLPats_lsuf]; rfl
      rw [sufLPats_cons, hsuf]
      have hout := hout hu0
      unfold DA.outOk at hout
      rw [hfail hu0, lpsIdx_eq hT hu, hfs] at hout
      simp only at hout
      split at hout
      · -- no pattern ends here
        rename_i hterm
        have : P.filter (fun p => p.key = a :: t) = [] := by
          rw [List.filter_eq_nil_iff]
          intro p hp hk
          simp only [decide_eq_true_eq] at hk
          have hm : (⟨[], p.blen, p.value⟩ : LPat V) ∈ resid P (a :: t) :=
            mem_resid.2 ⟨p, hp, by simp [hk], rfl, rfl⟩
          have := List.find?_eq_none.1 hterm _ hm
          simp at this
        rw [this, List.nil_append]
        have : st.opos = fs.opos := by simpa using hout
        rw [this]; exact hchain
      · rename_i p hterm
        have hpe := List.find?_some hterm
        have hpm := List.mem_of_find?_eq_some hterm
        obtain ⟨q, hq, hqk, hqb, hqv⟩ := mem_resid.1 hpm
        have hpk : p.key = [] := by simpa using hpe
        rw [hpk, List.append_nil] at hqk
        have hf := filter_key_of_nodup hkeys hq
        rw [hqk] at hf
        rw [hf]
        split at hout
        · exact absurd hout (by simp)
        · rename_i o ho
          simp only [Bool.and_eq_true, decide_eq_true_eq, beq_iff_eq] at hout
          obtain ⟨⟨h1, h2⟩, h3⟩ := hout
          have hpos : st.opos ≠ 0 := by
            intro h0
            simp [DA.out, h0] at ho
          simp only [List.cons_append, List.nil_append, List.map_cons]
          rw [hqv, hqb, ← h1, ← h2]
          exact ChainIs.cons hpos ho (h3 ▸ hchain)

/-! ### Assembly -/

/-- The evaluated invariant implies the semantic interface. The hypotheses `hP` and `hne` are not
needed by the proof (the root clause of the invariant already excludes empty keys from matching);
they are kept so that the statement has the agreed shape. -/
theorem stdSem_of_tableInv (da : DA V) (P : List (LPat V))
    (_hP : P ≠ []) (hkeys : (P.map (·.key)).Nodup) (_hne : ∀ p ∈ P, p.key ≠ [])
    (hT : da.tableInv P = true) (hD : maxKeyLen P < da.states.size) : StdSem da P where
  root := idx_nil da
  next_ok := next_ok_of_tableInv hT hD
  chain_ok := fun u hu => chain_ok_of_tableInv hkeys hT u.length u (Nat.le_refl _) hu

#print axioms stdSem_of_tableInv
#print axioms next_ok_of_tableInv
#print axioms chain_ok_of_tableInv

end Daac

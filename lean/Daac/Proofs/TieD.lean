/-
Translation tie, construction side: `DoubleArrayAhoCorasickBuilder::build_double_array` GENERATED from
the repository's `src/bytewise/builder.rs` by tools/dbl2lean.py (`Daac/Gen/BuildB.lean`, keyed by the
state ids of the sparse NFA, `state_id_map : Array Nat`) against the hand-written model
`buildLayout .bytewise` (Daac/Model/Build.lean, keyed by trie paths, `idx : HashMap path index`).

The primitives (`find_base`, `extend_array`, `remove_invalid_checks`, every `BuildHelper` method) are
tied to the model in Proofs/TieH, Proofs/TieL; here the loops around them are related by a simulation
(`Sim`): the builder's array is the model's, the translated helper represents the model's, and
`state_id_map[ido u] = idx[u]` for every trie node `u`, where `ido` maps a node (path) to its state id.
Results are compared by `RelE`: both succeed with related values, or both fail with the same error up
to the panic text (`norm` of Proofs/TieH).
-/
import Daac.Gen.BuildB
import Daac.Props.TieBuild
import Daac.Proofs.Total
namespace Daac.Tie.D
open Daac Daac.Gen Daac.Tie.H
variable {V : Type}

/-! ### Results up to panic texts -/

/-- Two errors agree up to the panic text. -/
def SameErr (e1 e2 : BuildErr) : Prop :=
  ∀ γ : Type, norm (.error e1 : Except BuildErr γ) = norm (.error e2)

theorem SameErr.rfl' (e : BuildErr) : SameErr e e := fun _ => rfl

theorem SameErr.panic (s1 s2 : String) : SameErr (.panic s1) (.panic s2) := fun _ => rfl

/-- Both computations succeed with `R`-related values, or both fail with the same error. -/
def RelE {α β : Type} (R : α → β → Prop) (x : Except BuildErr α) (y : Except BuildErr β) : Prop :=
  match x, y with
  | .ok a, .ok b => R a b
  | .error e1, .error e2 => SameErr e1 e2
  | _, _ => False

theorem RelE.err {α β : Type} {R : α → β → Prop} {e1 e2 : BuildErr} (h : SameErr e1 e2) :
    RelE R (.error e1 : Except BuildErr α) (.error e2 : Except BuildErr β) := h

theorem RelE.mono {α β : Type} {R R' : α → β → Prop} {x : Except BuildErr α} {y : Except BuildErr β}
    (h : RelE R x y) (hm : ∀ a b, R a b → R' a b) : RelE R' x y := by
  cases x <;> cases y <;> simp only [RelE] at h ⊢
  · exact h
  · exact hm _ _ h

/-- `RelE` with a functional relation gives the equality of the `norm`s. -/
theorem RelE.norm_eq {α β : Type} {f : α → β} {x : Except BuildErr α} {y : Except BuildErr β}
    (h : RelE (fun a b => f a = b) x y) : norm (x.map f) = norm y := by
  cases x <;> cases y <;> simp only [RelE] at h
  · exact h β
  · subst h; rfl

/-! ### The simulation relation -/

/-- The Rust-side loop state (builder, helper, `state_id_map`) represents the model-side `lay`. -/
structure Sim (t : Trie V) (ido : List Nat → Nat) (b : LB.Builder) (g : H.BuildHelper)
    (sm : Array Nat) (lay : Lay) : Prop where
  states : b.states = lay.states
  helper : repr g = lay.h
  wf : Wf g
  map : ∀ u, t.hasNode u = true → sm[ido u]? = some (lay.idx.getD u deadIdx)

/-- `ido` is injective on the nodes of the trie. -/
def IdInj (t : Trie V) (ido : List Nat → Nat) : Prop :=
  ∀ u w, t.hasNode u = true → t.hasNode w = true → ido u = ido w → u = w

theorem index_ok' {α : Type} (a : Array α) (i : Nat) (x : α) (h : a[i]? = some x) : Rs.index a i = .ok x := by
  simp [Rs.index, h]

theorem indexSet_ok {α : Type} (a : Array α) (i : Nat) (x v : α) (h : a[i]? = some x) :
    Rs.indexSet a i v = .ok (a.setIfInBounds i v) := by
  have : i < a.size := by
    rcases Nat.lt_or_ge i a.size with h' | h'
    · exact h'
    · rw [Array.getElem?_eq_none h'] at h; cases h
  simp [Rs.indexSet, this]

/-! ### (1a) The `for (&c, &child_id) in &s.edges` loop = `placeChildren` -/

theorem loop1_sim (t : Trie V) (ido : List Nat → Nat) (hinj : IdInj t ido) (sidx base : Nat) :
    ∀ (edges : List (Nat × List Nat)), (∀ e ∈ edges, t.hasNode e.2 = true) →
    ∀ (b : LB.Builder) (g : H.BuildHelper) (sm : Array Nat) (stk : List Nat) (lay : Lay),
    Sim t ido b g sm lay →
    RelE (fun r lay' => Sim t ido r.1 r.2.1 r.2.2.1 lay' ∧
            r.2.2.2 = (edges.map (fun e => ido e.2)).reverse ++ stk)
      (DB.Builder.build_double_array.loop1 base (edges.map (fun e => (e.1, ido e.2))) b g sm stk)
      (placeChildren .bytewise sidx base edges lay) := by
  intro edges
  induction edges with
  | nil =>
    intro _ b g sm stk lay S
    simp only [List.map_nil, DB.Builder.build_double_array.loop1, placeChildren, RelE]
    exact ⟨S, rfl⟩
  | cons e0 rest ih =>
    intro hn b g sm stk lay S
    obtain ⟨c, child⟩ := e0
    have hchild : t.hasNode child = true := hn (c, child) List.mem_cons_self
    have hrest : ∀ e ∈ rest, t.hasNode e.2 = true := fun e he => hn e (List.mem_cons_of_mem _ he)
    simp only [List.map_cons, DB.Builder.build_double_array.loop1]
    rw [placeChildren_cons]
    have hu := use_index_eq g S.wf (base ^^^ c)
    rw [S.helper] at hu
    rcases norm_cases _ _ _ hu with ⟨⟨u, g'⟩, hg, hm⟩ | ⟨e1, e2, hg, hm, he⟩
    · rw [hg, hm]
      simp only
      have wf' : Wf g' := wf_of_size S.wf (use_index_size _ _ _ _ hg)
      rw [S.states]
      rcases Tie.L.index_setSt lay.states (base ^^^ c) c with ⟨el, h1, h2⟩ | ⟨s1, s2, h1, h2⟩
      · have h2' : setSt lay.states (base ^^^ c) (fun st => { st with check := chkOf .bytewise c sidx })
            = .ok (lay.states.setIfInBounds (base ^^^ c) { el with check := c }) := h2
        rw [h1, h2']
        simp only
        have hsm := S.map child hchild
        rw [indexSet_ok sm (ido child) _ (base ^^^ c) hsm]
        simp only
        have S' : Sim t ido { b with states := lay.states.setIfInBounds (base ^^^ c) (Rs.St.set_check el c) } g'
            (sm.setIfInBounds (ido child) (base ^^^ c))
            ⟨lay.states.setIfInBounds (base ^^^ c) { el with check := c }, repr g',
              lay.idx.insert child (base ^^^ c)⟩ := by
          refine ⟨rfl, rfl, wf', ?_⟩
          intro w hw
          simp only [Std.HashMap.getD_insert]
          by_cases hcw : child = w
          · subst hcw
            simp only [beq_self_eq_true, if_true]
            have hlt : ido child < sm.size := by
              rcases Nat.lt_or_ge (ido child) sm.size with h' | h'
              · exact h'
              · rw [Array.getElem?_eq_none h'] at hsm; cases hsm
            simp [hlt]
          · have hne : ido child ≠ ido w := fun h => hcw (hinj child w hchild hw h)
            have hb : (child == w) = false := by simpa using hcw
            simp only [hb, Bool.false_eq_true, if_false]
            rw [Array.getElem?_setIfInBounds_ne hne]
            exact S.map w hw
        have := ih hrest _ g' _ (ido child :: stk) _ S'
        refine RelE.mono this ?_
        intro r lay' ⟨h1, h2⟩
        refine ⟨h1, ?_⟩
        rw [h2]; simp
      · have h2' : setSt lay.states (base ^^^ c) (fun st => { st with check := chkOf .bytewise c sidx })
            = .error (.panic s2) := h2
        rw [h1, h2']
        exact RelE.err (SameErr.panic _ _)
    · rw [hg, hm]
      exact RelE.err he

/-! ### (4) The final `for closed_block_idx in helper.active_block_range()` loop = `sanitiseBlocks` -/

theorem loop3_sim (g : H.BuildHelper) (hw : Wf g) : ∀ (n b0 : Nat) (b : LB.Builder),
    norm ((DB.Builder.build_double_array.loop3 g (List.range' b0 n) b).map (·.states))
      = norm (sanitiseBlocks (repr g) n b0 b.states) := by
  intro n
  induction n with
  | zero => intro b0 b; rfl
  | succ n ih =>
    intro b0 b
    simp only [List.range'_succ, DB.Builder.build_double_array.loop3, sanitiseBlocks]
    rcases norm_cases _ _ _ (Tie.L.B.remove_invalid_checks_eq b g hw b0) with ⟨⟨u, b'⟩, h1, h2⟩ | ⟨e1, e2, h1, h2, he⟩
    · rw [h1, h2]
      exact ih (b0 + 1) b'
    · rw [h1, h2]
      exact he _

/-- The sanitising pass over `helper.active_block_range()` as translated = the model's `sanitiseBlocks`
over the active blocks. -/
theorem final_loop_eq (g : H.BuildHelper) (hw : Wf g) (b : LB.Builder) :
    norm ((DB.Builder.build_double_array.loop3 g
        (Rs.rangeList (H.BuildHelper.active_block_range g).1 (H.BuildHelper.active_block_range g).2) b).map (·.states))
      = norm (sanitiseBlocks (repr g) ((repr g).numBlocks - (repr g).activeStart) (repr g).activeStart b.states) :=
  loop3_sim g hw _ _ b

/-! ### (1b) One iteration of `while let Some(state_id) = stack.pop()` -/

/-- The body of the generated DFS loop (proof-internal; `loop0_succ` shows that the generated loop is
exactly this body followed by the recursive call). -/
def genStep (nfa : N.NfaBuilder V) (b : LB.Builder) (g : H.BuildHelper) (sm : Array Nat) (sid : Nat)
    (stk labels : List Nat) :
    Except BuildErr (LB.Builder × H.BuildHelper × Array Nat × List Nat × List Nat) :=
  match Rs.index nfa.states sid with
  | .error e => .error e
  | .ok s =>
    match Rs.index sm sid with
    | .error e => .error e
    | .ok sidx =>
      if List.isEmpty s.edges then .ok (b, g, sm, stk, labels) else
      let labels := List.foldl (fun labels k => labels ++ [k]) [] (List.map Prod.fst s.edges)
      match LB.Builder.find_base b labels g with
      | .error e => .error e
      | .ok base =>
        match ((if decide (base ≥ b.states.size) then
            match LB.Builder.extend_array b g with
            | .error e => .error e
            | .ok (_, b, g) => .ok (b, g)
          else .ok (b, g)) : Except BuildErr (LB.Builder × H.BuildHelper)) with
        | .error e => .error e
        | .ok (b, g) =>
          match DB.Builder.build_double_array.loop1 base s.edges b g sm stk with
          | .error e => .error e
          | .ok (b, g, sm, stk) =>
            match Rs.index b.states sidx with
            | .error e => .error e
            | .ok el =>
              match H.BuildHelper.use_base g base with
              | .error e => .error e
              | .ok (_, g) =>
                .ok ({ b with states := b.states.setIfInBounds sidx (Rs.St.set_base el base) }, g, sm, stk, labels)

theorem loop0_nil (nfa : N.NfaBuilder V) (fuel : Nat) (b : LB.Builder) (g : H.BuildHelper) (sm : Array Nat)
    (labels : List Nat) :
    DB.Builder.build_double_array.loop0 nfa (fuel + 1) b g sm [] labels = .ok (b, g, sm, [], labels) := by
  simp only [DB.Builder.build_double_array.loop0]

theorem loop0_succ (nfa : N.NfaBuilder V) (fuel : Nat) (b : LB.Builder) (g : H.BuildHelper) (sm : Array Nat)
    (sid : Nat) (stk labels : List Nat) :
    DB.Builder.build_double_array.loop0 nfa (fuel + 1) b g sm (sid :: stk) labels =
      match genStep nfa b g sm sid stk labels with
      | .error e => .error e
      | .ok (b', g', sm', stk', labels') => DB.Builder.build_double_array.loop0 nfa fuel b' g' sm' stk' labels' := by
  simp only [DB.Builder.build_double_array.loop0, genStep]
  cases Rs.index nfa.states sid with
  | error e => rfl
  | ok s =>
    dsimp only
    cases Rs.index sm sid with
    | error e => rfl
    | ok sidx =>
      dsimp only
      cases hE : List.isEmpty s.edges with
      | true => simp only [if_true]
      | false =>
        simp only [Bool.false_eq_true, if_false]
        cases LB.Builder.find_base b _ g with
        | error e => rfl
        | ok base =>
          dsimp only
          generalize (if decide (base ≥ b.states.size) then _ else _ :
            Except BuildErr (LB.Builder × H.BuildHelper)) = X
          cases X with
          | error e => rfl
          | ok p =>
            obtain ⟨b1, g1⟩ := p
            dsimp only
            cases DB.Builder.build_double_array.loop1 base s.edges b1 g1 sm stk with
            | error e => rfl
            | ok q =>
              obtain ⟨b2, g2, sm2, stk2⟩ := q
              dsimp only
              cases Rs.index b2.states sidx with
              | error e => rfl
              | ok el =>
                dsimp only
                cases H.BuildHelper.use_base g2 base with
                | error e => rfl
                | ok r => rfl

theorem index_setSt' (a : Array St) (i : Nat) (f : St → St) :
    (∃ el, Rs.index a i = .ok el ∧ setSt a i f = .ok (a.setIfInBounds i (f el))) ∨
    (∃ s1 s2, Rs.index a i = .error (.panic s1) ∧ setSt a i f = .error (.panic s2)) := by
  by_cases h : i < a.size
  · left
    refine ⟨a[i], by simp [Rs.index, h], ?_⟩
    simp only [setSt, h, if_true, Tie.L.modify_eq_set a i h]
  · right
    refine ⟨"index out of bounds", "states[i]: index out of bounds", ?_, ?_⟩
    · simp [Rs.index, h]
    · simp only [setSt, h, if_false]

theorem foldl_push (xs : List Nat) : ∀ acc : List Nat,
    List.foldl (fun l k => l ++ [k]) acc xs = acc ++ xs := by
  induction xs with
  | nil => intro acc; simp
  | cons x xs ih => intro acc; simp [ih]

theorem extend_array_size (b b1 : LB.Builder) (g g1 : H.BuildHelper) (u : Unit)
    (h : LB.Builder.extend_array b g = .ok (u, b1, g1)) : g1.items.size = g.items.size := by
  unfold LB.Builder.extend_array at h
  split at h
  · cases h
  · split at h
    · cases h
    · split at h
      · cases h
      · rename_i r4 s5 hp
        simp only [Except.ok.injEq, Prod.mk.injEq] at h
        obtain ⟨_, _, rfl⟩ := h
        exact push_block_size _ _ _ hp

theorem extendArray_idx (v : Variant) (lay lay1 : Lay) (h : extendArray v lay = .ok lay1) :
    lay1.idx = lay.idx := by
  rw [extendArray_eq] at h
  split at h
  · cases h
  · split at h
    · cases h
    · split at h
      · cases h
      · cases h; rfl

/-- The part of the loop body after the array has been extended = `stepTail`. -/
theorem tail_sim (t : Trie V) (ido : List Nat → Nat) (hinj : IdInj t ido)
    (edges : List (Nat × List Nat)) (hnode : ∀ e ∈ edges, t.hasNode e.2 = true)
    (b1 : LB.Builder) (g1 : H.BuildHelper) (sm : Array Nat) (lay1 : Lay) (S1 : Sim t ido b1 g1 sm lay1)
    (sidx base : Nat) (pstk : List (List Nat)) (labels : List Nat) :
    RelE (fun r p => Sim t ido r.1 r.2.1 r.2.2.1 p.2 ∧ r.2.2.2.1 = p.1.map ido)
      (match DB.Builder.build_double_array.loop1 base (edges.map (fun e => (e.1, ido e.2))) b1 g1 sm (pstk.map ido) with
        | .error e => .error e
        | .ok (b, g, sm, stk) =>
          match Rs.index b.states sidx with
          | .error e => .error e
          | .ok el =>
            match H.BuildHelper.use_base g base with
            | .error e => .error e
            | .ok (_, g) =>
              (.ok ({ b with states := b.states.setIfInBounds sidx (Rs.St.set_base el base) }, g, sm, stk, labels) :
                Except BuildErr (LB.Builder × H.BuildHelper × Array Nat × List Nat × List Nat)))
      (stepTail .bytewise sidx base edges pstk lay1) := by
  have h1 := loop1_sim t ido hinj sidx base edges hnode b1 g1 sm (pstk.map ido) lay1 S1
  unfold stepTail
  cases hl : DB.Builder.build_double_array.loop1 base (edges.map (fun e => (e.1, ido e.2))) b1 g1 sm (pstk.map ido) with
  | error e1 =>
    cases hp : placeChildren .bytewise sidx base edges lay1 with
    | error e2 => rw [hl, hp] at h1; exact h1
    | ok lay2 => rw [hl, hp] at h1; exact h1.elim
  | ok r =>
    obtain ⟨b2, g2, sm2, stk2⟩ := r
    cases hp : placeChildren .bytewise sidx base edges lay1 with
    | error e2 => rw [hl, hp] at h1; exact h1.elim
    | ok lay2 =>
      rw [hl, hp] at h1
      obtain ⟨S2, hstk⟩ : Sim t ido b2 g2 sm2 lay2 ∧ stk2 = (edges.map (fun e => ido e.2)).reverse ++ pstk.map ido := h1
      simp only
      rw [S2.states]
      rcases index_setSt' lay2.states sidx (fun st => { st with base := base }) with ⟨el, i1, i2⟩ | ⟨s1, s2, i1, i2⟩
      · rw [i1, i2]
        simp only
        have hu := use_base_eq g2 S2.wf base
        rw [S2.helper] at hu
        rcases norm_cases _ _ _ hu with ⟨⟨u, g3⟩, hg, hm⟩ | ⟨e1, e2, hg, hm, he⟩
        · rw [hg, hm]
          simp only [RelE]
          refine ⟨⟨rfl, rfl, wf_of_size S2.wf (use_base_size _ _ _ _ hg), S2.map⟩, ?_⟩
          rw [hstk]
          simp [List.map_reverse, List.map_map, Function.comp_def]
        · rw [hg, hm]
          exact RelE.err he
      · rw [i1, i2]
        exact RelE.err (SameErr.panic _ _)

/-- (1b) One DFS step: the generated loop body = the model's `layoutStep`, under the simulation. -/
theorem step_sim (m : Mapper) (t : Trie V) (ido : List Nat → Nat) (hinj : IdInj t ido)
    (nfa : N.NfaBuilder V) (u : List Nat) (hu : t.hasNode u = true) (s : N.NfaBuilderState V)
    (hs : nfa.states[ido u]? = some s)
    (he : s.edges = (LayB.edgesB t u).map (fun e => (e.1, ido e.2)))
    (b : LB.Builder) (g : H.BuildHelper) (sm : Array Nat) (lay : Lay) (S : Sim t ido b g sm lay)
    (vac : List Nat) (mwf : lay.h.WF) (ll : lay.h.LL vac) (hbl : lay.h.blockLen = 256)
    (hsz : 0 < lay.states.size ∧ lay.states.size ≤ 4294967295) (pstk : List (List Nat)) (labels : List Nat) :
    RelE (fun r p => Sim t ido r.1 r.2.1 r.2.2.1 p.2 ∧ r.2.2.2.1 = p.1.map ido)
      (genStep nfa b g sm (ido u) (pstk.map ido) labels)
      (layoutStep .bytewise m t u pstk lay) := by
  have hec : edgeCodes .bytewise m t u = .ok (LayB.edgesB t u) := rfl
  have hnode : ∀ e ∈ LayB.edgesB t u, t.hasNode e.2 = true := by
    intro e he'
    obtain ⟨c, hc, rfl⟩ := (LayB.mem_edgesB hu e).1 he'
    exact hc
  have hlab : List.foldl (fun (l : List Nat) k => l ++ [k]) [] (List.map Prod.fst s.edges)
      = (LayB.edgesB t u).map (·.1) := by
    rw [foldl_push, List.nil_append, he, List.map_map]
    rfl
  unfold genStep
  rw [index_ok' _ _ _ hs, index_ok' _ _ _ (S.map u hu)]
  simp only [hlab]
  cases hE : LayB.edgesB t u with
  | nil =>
    rw [hE] at hec he
    rw [layoutStep_nil pstk lay hec, he]
    simp only [List.map_nil, List.isEmpty_nil, if_true, RelE]
    exact ⟨S, trivial⟩
  | cons e0 rest =>
    rw [hE] at hec he hnode
    rw [layoutStep_cons pstk lay hec, he]
    have hne : (List.map (fun e : Nat × List Nat => (e.1, ido e.2)) (e0 :: rest)).isEmpty = false := rfl
    rw [hne]
    simp only [Bool.false_eq_true, if_false]
    have G : Props.TieBuild.Good g vac :=
      ⟨S.wf, by rw [S.helper]; exact mwf, by rw [S.helper]; exact ll⟩
    have hfb := Props.TieBuild.generated_find_base_bytewise b g vac G lay.idx ((e0 :: rest).map (·.1))
      (by simp) (by rw [S.states]; exact hsz)
    rw [S.states, S.helper] at hfb
    have hlay : (⟨lay.states, lay.h, lay.idx⟩ : Lay) = lay := rfl
    rw [hlay] at hfb
    rcases norm_cases' _ _ hfb with ⟨base, f1, f2⟩ | ⟨e1, e2, f1, f2, hee⟩
    · rw [f1, f2]
      simp only
      have hb : g.block_len = Gen.blockLen := by
        have := hbl
        rw [← S.helper] at this
        exact this
      by_cases hge : lay.states.size ≤ base
      · have hd : decide (base ≥ b.states.size) = true := by rw [S.states]; simpa using hge
        rw [if_pos hge, hd]
        simp only [if_true]
        have hx := Tie.L.B.extend_array_eq b g S.wf hb lay.idx
        rw [S.states, S.helper, hlay] at hx
        cases hxa : extendArray .bytewise lay with
        | error e2 =>
          rw [hxa] at hx
          rcases norm_cases _ _ _ hx with ⟨a, _, x2⟩ | ⟨e1', e2', x1, x2, hee⟩
          · cases x2
          · rw [x1]
            simp only [Except.map, Except.error.injEq] at x2
            subst x2
            exact RelE.err hee
        | ok lay1 =>
          rw [hxa] at hx
          rcases norm_cases _ _ _ hx with ⟨⟨uu, b1, g1⟩, x1, x2⟩ | ⟨e1', e2', x1, x2, hee⟩
          · rw [x1]
            simp only [Except.map, Except.ok.injEq, Prod.mk.injEq] at x2
            have S1 : Sim t ido b1 g1 sm lay1 :=
              ⟨x2.1.symm, x2.2.symm, wf_of_size S.wf (extend_array_size _ _ _ _ _ x1),
               by rw [extendArray_idx _ _ _ hxa]; exact S.map⟩
            exact tail_sim t ido hinj (e0 :: rest) hnode b1 g1 sm lay1 S1 _ base pstk _
          · cases x2
      · have hd : decide (base ≥ b.states.size) = false := by rw [S.states]; simpa using hge
        rw [if_neg hge, hd]
        simp only [Bool.false_eq_true, if_false]
        exact tail_sim t ido hinj (e0 :: rest) hnode b g sm lay S _ base pstk _
    · rw [f1, f2]
      exact RelE.err hee

/-! ### Size facts of the model step (the `u32` bound that `find_base` relies on) -/

theorem setSt_size {s s' : Array St} {i : Nat} {f : St → St} (h : setSt s i f = .ok s') :
    s'.size = s.size := by
  unfold setSt at h
  split at h
  · cases h; simp
  · cases h

theorem placeChildren_size (v : Variant) (sidx base : Nat) : ∀ (edges : List (Nat × List Nat)) (lay lay' : Lay),
    placeChildren v sidx base edges lay = .ok lay' → lay'.states.size = lay.states.size := by
  intro edges
  induction edges with
  | nil =>
    intro lay lay' h
    simp only [placeChildren, Except.ok.injEq] at h
    subst h; rfl
  | cons e rest ih =>
    intro lay lay' h
    obtain ⟨c, child⟩ := e
    rw [placeChildren_cons] at h
    split at h
    · cases h
    · split at h
      · cases h
      · rename_i states' hs
        rw [ih _ _ h]
        exact setSt_size hs

theorem removeInvalidChecks_size {s s' : Array St} {h : Helper} {b : Nat}
    (e : removeInvalidChecks s h b = .ok s') : s'.size = s.size := by
  unfold removeInvalidChecks at e
  split at e
  · cases e
  · cases e; rfl
  · exact (LayB.sanitiseLoop_spec _ _ _ _ _ _ e).1

theorem extendArray_bound (lay lay1 : Lay) (hbl : lay.h.blockLen = 256)
    (h : extendArray .bytewise lay = .ok lay1) :
    lay1.states.size = lay.states.size + 256 ∧ lay1.states.size ≤ 4294967295 := by
  rw [extendArray_eq] at h
  split at h
  · cases h
  · rename_i hbig
    split at h
    · cases h
    · rename_i states hsan
      have hst : states.size = lay.states.size := by
        unfold sanitisedOf at hsan
        split at hsan
        · exact removeInvalidChecks_size hsan
        · cases hsan; rfl
      split at h
      · cases h
      · cases h
        rw [hbl] at hbig
        unfold u32Max at hbig
        have e1 : (states ++ Array.replicate lay.h.blockLen (stDefault .bytewise)).size = lay.states.size + 256 := by
          rw [Array.size_append, Array.size_replicate, hst, hbl]
        exact ⟨e1, by rw [e1]; omega⟩

theorem layoutStep_bound {m : Mapper} {t : Trie V} {u : List Nat} {stack stack' : List (List Nat)}
    {lay lay' : Lay} (hbl : lay.h.blockLen = 256) (hle : lay.states.size ≤ 4294967295)
    (h : layoutStep .bytewise m t u stack lay = .ok (stack', lay')) : lay'.states.size ≤ 4294967295 := by
  have hec : edgeCodes .bytewise m t u = .ok (LayB.edgesB t u) := rfl
  cases hE : LayB.edgesB t u with
  | nil =>
    rw [hE] at hec
    rw [layoutStep_nil stack lay hec] at h
    cases h; exact hle
  | cons e0 rest =>
    rw [hE] at hec
    rw [layoutStep_cons stack lay hec] at h
    split at h
    · cases h
    · split at h
      · cases h
      · rename_i lay1 hx
        have h1 : lay1.states.size ≤ 4294967295 := by
          split at hx
          · exact (extendArray_bound lay lay1 hbl hx).2
          · cases hx; exact hle
        unfold stepTail at h
        split at h
        · cases h
        · rename_i lay2 hp
          split at h
          · cases h
          · rename_i st' hs
            simp only at h
            split at h
            · cases h
            · simp only [Except.ok.injEq, Prod.mk.injEq] at h
              obtain ⟨_, rfl⟩ := h
              show st'.size ≤ 4294967295
              rw [setSt_size hs, placeChildren_size _ _ _ _ _ _ hp]
              exact h1

/-! ### The sparse NFA as seen by the layout pass -/

/-- The `NfaBuilder` `g` represents the model NFA `nfa` over the trie `t`; `ido` maps a node (path) to
its state id.  (Flat form of `TieN.Rep g.states pth t 0 []` + the conditions on `fail` / `output_pos`:
`ido u` is the id with `pth id = some u`.) -/
structure NfaRep (g : N.NfaBuilder V) (t : Trie V) (nfa : Nfa V) (ido : List Nat → Nat) : Prop where
  root : ido [] = Gen.rootStateId
  inj : IdInj t ido
  neDead : ∀ u, t.hasNode u = true → ido u ≠ Gen.deadStateId
  size : g.states.size = t.size + 1
  onto : ∀ i, i < g.states.size → i ≠ Gen.deadStateId → ∃ u, t.hasNode u = true ∧ ido u = i
  node : ∀ u, t.hasNode u = true → ∃ s, g.states[ido u]? = some s ∧
    s.edges = (LayB.edgesB t u).map (fun e => (e.1, ido e.2)) ∧
    s.fail = (match nfa.fail.get u with
      | .dead => Gen.deadStateId
      | .node w => ido w) ∧
    s.output_pos.getD 0 = nfa.out.opos.getD u 0

/-! ### (2) The DFS loop -/

/-- The model-side invariant of the byte-wise DFS loop (Proofs/LayoutB.lean). -/
def JB (t : Trie V) (lay : Lay) (stack : List (List Nat)) : Prop :=
  ∃ done, LayB.Inv t done stack (LayB.ixOf lay) (LayB.gs lay.states) lay.states.size lay.h

/-- The generated DFS loop = the model's `layoutLoop`, under the simulation: from related states,
with the model-side invariant and enough fuel on both sides, both loops fail alike or end in related
states. -/
theorem loop_sim (m : Mapper) (t : Trie V) (ido : List Nat → Nat) (nfa : N.NfaBuilder V)
    (hinj : IdInj t ido)
    (hnode : ∀ u, t.hasNode u = true → ∃ s, nfa.states[ido u]? = some s ∧
      s.edges = (LayB.edgesB t u).map (fun e => (e.1, ido e.2)))
    (hsort : t.Sorted) (hbytes : ∀ u, t.hasNode u = true → ∀ c ∈ u, c < 256) :
    ∀ (fm fg : Nat) (pstk : List (List Nat)) (lay : Lay) (seen : List (List Nat)) (vac : List Nat)
      (b : LB.Builder) (g : H.BuildHelper) (sm : Array Nat) (labels : List Nat),
      JB t lay pstk → lay.h.LL vac → T t seen pstk → t.size + 1 ≤ fm + seen.length → fm + 1 ≤ fg →
      lay.states.size ≤ 4294967295 → Sim t ido b g sm lay →
      RelE (fun r lay' => Sim t ido r.1 r.2.1 r.2.2.1 lay' ∧ JB t lay' [] ∧ lay'.states.size ≤ 4294967295)
        (DB.Builder.build_double_array.loop0 nfa fg b g sm (pstk.map ido) labels)
        (layoutLoop .bytewise m t fm pstk lay) := by
  intro fm
  induction fm with
  | zero =>
    intro fg pstk lay seen vac b g sm labels hj ll tt hf hfg hle S
    cases pstk with
    | nil =>
      obtain ⟨fg', rfl⟩ : ∃ k, fg = k + 1 := ⟨fg - 1, by omega⟩
      rw [List.map_nil, loop0_nil, layoutLoop_nil]
      exact ⟨S, hj, hle⟩
    | cons u rest =>
      have := tt.length_le hsort
      simp only [List.length_cons] at this
      omega
  | succ fm ih =>
    intro fg pstk lay seen vac b g sm labels hj ll tt hf hfg hle S
    obtain ⟨fg', rfl⟩ : ∃ k, fg = k + 1 := ⟨fg - 1, by omega⟩
    cases pstk with
    | nil =>
      rw [List.map_nil, loop0_nil, layoutLoop_nil]
      exact ⟨S, hj, hle⟩
    | cons u rest =>
      have hu : t.hasNode u = true := tt.node u (List.mem_append_right _ List.mem_cons_self)
      obtain ⟨edges, hec, nd1, hclt, nd2, hsub⟩ := edgesOK_bytewise (m := m) hsort hbytes hu
      obtain ⟨done, I⟩ := hj
      have pf : PF 256 lay (u :: rest) := ⟨I.wf, I.bl, I.size, fun w hw => I.lt w (I.stackPl w hw)⟩
      obtain ⟨s, hs, hse⟩ := hnode u hu
      have hpos : 0 < lay.states.size := by
        have h1 := I.size
        have h2 := I.nbpos
        omega
      have hstep := step_sim m t ido hinj nfa u hu s hs hse b g sm lay S vac I.wf ll I.bl ⟨hpos, hle⟩ rest labels
      rw [List.map_cons, loop0_succ, layoutLoop_cons]
      rcases layoutStep_progress two56 (fun _ => rfl) pf ll hec nd1 hclt with ⟨lay', es, vac', ll'⟩ | hsc
      · rw [es] at hstep ⊢
        cases hg : genStep nfa b g sm (ido u) (rest.map ido) labels with
        | error e => rw [hg] at hstep; exact hstep.elim
        | ok r =>
          obtain ⟨b', g', sm', stk', labels'⟩ := r
          rw [hg] at hstep
          obtain ⟨S', hstk⟩ := hstep
          simp only at hstk S' ⊢
          rw [hstk]
          exact ih fg' _ lay' (u :: seen) vac' b' g' sm' labels' (LayB.layoutStep_inv hsort hbytes I es) ll'
            (tt.step nd2 hsub) (by simp only [List.length_cons]; omega) (by omega)
            (layoutStep_bound I.bl hle es) S'
      · rw [hsc] at hstep ⊢
        cases hg : genStep nfa b g sm (ido u) (rest.map ido) labels with
        | error e => rw [hg] at hstep; exact hstep
        | ok r => rw [hg] at hstep; exact hstep.elim

/-! ### (3) The fail / output_pos pass

Both passes are folds of the same per-node write over a list of triples (slot, output position, fail
index): the model visits the nodes in `t.paths []` order, the generated code in state-id order.  The
writes go to pairwise distinct slots, so the result does not depend on the order (`foM_set_eq`). -/

/-- The write of `setFailOut` / of the generated loop body. -/
def wFO (op f : Nat) : St → St := fun s => { s with opos := op, fail := f }

/-- The fold both passes perform. -/
def foM : List (Nat × Nat × Nat) → Array St → Except BuildErr (Array St)
  | [], A => .ok A
  | (k, op, f) :: r, A =>
    if op > u24Max then .error .automatonScale else
    match setSt A k (wFO op f) with
    | .error e => .error e
    | .ok A' => foM r A'

theorem wFO_idem (op f : Nat) (o : Option St) : (o.map (wFO op f)).map (wFO op f) = o.map (wFO op f) := by
  cases o <;> rfl

theorem foM_cases : ∀ (T : List (Nat × Nat × Nat)) (A : Array St), (∀ x ∈ T, x.1 < A.size) →
    ((∀ x ∈ T, x.2.1 ≤ u24Max) ∧ ∃ A', foM T A = .ok A' ∧ A'.size = A.size ∧
      (∀ j, (∀ x ∈ T, x.1 ≠ j) → A'[j]? = A[j]?) ∧
      ((∀ x y, x ∈ T → y ∈ T → x.1 = y.1 → x = y) →
        ∀ x ∈ T, A'[x.1]? = A[x.1]?.map (wFO x.2.1 x.2.2))) ∨
    ((∃ x ∈ T, x.2.1 > u24Max) ∧ foM T A = .error .automatonScale) := by
  intro T
  induction T with
  | nil =>
    intro A _
    left
    refine ⟨by simp, A, rfl, rfl, fun _ _ => rfl, fun _ x hx => by cases hx⟩
  | cons x0 r ih =>
    intro A hlt
    obtain ⟨k, op, f⟩ := x0
    by_cases hop : op > u24Max
    · right
      exact ⟨⟨(k, op, f), List.mem_cons_self, hop⟩, by simp only [foM, if_pos hop]⟩
    · have hk : k < A.size := hlt (k, op, f) List.mem_cons_self
      have es := setSt_lt (s := A) (i := k) (wFO op f) hk
      have hsz : (A.modify k (wFO op f)).size = A.size := by simp
      rcases ih (A.modify k (wFO op f)) (fun x hx => by rw [hsz]; exact hlt x (List.mem_cons_of_mem _ hx)) with
        ⟨hall, A', e, sz, hun, hfun⟩ | ⟨hex, e⟩
      · left
        refine ⟨?_, A', by simp only [foM, if_neg hop, es, e], sz.trans hsz, ?_, ?_⟩
        · intro x hx
          rcases List.mem_cons.1 hx with rfl | hx
          · exact Nat.le_of_not_gt hop
          · exact hall x hx
        · intro j hj
          rw [hun j (fun x hx => hj x (List.mem_cons_of_mem _ hx)), Array.getElem?_modify,
            if_neg (hj (k, op, f) List.mem_cons_self)]
        · intro hinj x hx
          have hinj' : ∀ a b, a ∈ r → b ∈ r → a.1 = b.1 → a = b :=
            fun a b ha hb => hinj a b (List.mem_cons_of_mem _ ha) (List.mem_cons_of_mem _ hb)
          by_cases hr : x ∈ r
          · rw [hfun hinj' x hr, Array.getElem?_modify]
            by_cases hkx : k = x.1
            · have : x = (k, op, f) := hinj x (k, op, f) hx List.mem_cons_self hkx.symm
              subst this
              rw [if_pos rfl]
              exact wFO_idem _ _ _
            · rw [if_neg hkx]
          · rcases List.mem_cons.1 hx with rfl | hx'
            · have hne : ∀ y ∈ r, y.1 ≠ k := by
                intro y hy hyk
                have := hinj y (k, op, f) (List.mem_cons_of_mem _ hy) List.mem_cons_self hyk
                subst this
                exact hr hy
              rw [hun k hne, Array.getElem?_modify, if_pos rfl]
            · exact absurd hx' hr
      · right
        refine ⟨?_, by simp only [foM, if_neg hop, es, e]⟩
        obtain ⟨x, hx, h⟩ := hex
        exact ⟨x, List.mem_cons_of_mem _ hx, h⟩

/-- Two triple lists with the same members, slots in range and pairwise distinct: same result. -/
theorem foM_set_eq (T1 T2 : List (Nat × Nat × Nat)) (A : Array St) (hmem : ∀ x, x ∈ T1 ↔ x ∈ T2)
    (hlt : ∀ x ∈ T1, x.1 < A.size) (hinj : ∀ x y, x ∈ T1 → y ∈ T1 → x.1 = y.1 → x = y) :
    RelE (fun a b => a = b) (foM T1 A) (foM T2 A) := by
  have hlt2 : ∀ x ∈ T2, x.1 < A.size := fun x hx => hlt x ((hmem x).2 hx)
  have hinj2 : ∀ x y, x ∈ T2 → y ∈ T2 → x.1 = y.1 → x = y :=
    fun x y hx hy => hinj x y ((hmem x).2 hx) ((hmem y).2 hy)
  rcases foM_cases T1 A hlt with ⟨hall1, A1, e1, sz1, un1, fn1⟩ | ⟨⟨x, hx, hop⟩, e1⟩
  · rcases foM_cases T2 A hlt2 with ⟨hall2, A2, e2, sz2, un2, fn2⟩ | ⟨⟨x, hx, hop⟩, e2⟩
    · rw [e1, e2]
      show A1 = A2
      apply Array.ext_getElem?
      intro j
      by_cases hj : ∃ x ∈ T1, x.1 = j
      · obtain ⟨x, hx, rfl⟩ := hj
        rw [fn1 hinj x hx, fn2 hinj2 x ((hmem x).1 hx)]
      · have h1 : ∀ x ∈ T1, x.1 ≠ j := fun x hx e => hj ⟨x, hx, e⟩
        rw [un1 j h1, un2 j (fun x hx => h1 x ((hmem x).2 hx))]
    · have := hall1 x ((hmem x).2 hx)
      omega
  · rcases foM_cases T2 A hlt2 with ⟨hall2, A2, e2, sz2, un2, fn2⟩ | ⟨_, e2⟩
    · have := hall2 x ((hmem x).1 hx)
      omega
    · rw [e1, e2]
      exact SameErr.rfl' _

/-- The model's triple of node `u`. -/
def tripM (nfa : Nfa V) (idx : Std.HashMap (List Nat) Nat) (u : List Nat) : Nat × Nat × Nat :=
  (idx.getD u deadIdx, nfa.out.opos.getD u 0, LayB.failIdx nfa (fun w => idx.getD w deadIdx) u)

theorem setFailOut_eq_foM (nfa : Nfa V) : ∀ (L : List (List Nat)) (lay : Lay),
    setFailOut .bytewise nfa L lay
      = (foM (L.map (tripM nfa lay.idx)) lay.states).map (fun A => { lay with states := A }) := by
  intro L
  induction L with
  | nil => intro lay; rfl
  | cons u rest ih =>
    intro lay
    simp only [setFailOut, List.map_cons, tripM, foM, true_and]
    by_cases hop : nfa.out.opos.getD u 0 > u24Max
    · simp only [if_pos hop]; rfl
    · simp only [if_neg hop]
      unfold wFO LayB.failIdx
      generalize nfa.fail.get u = ft
      cases ft with
      | dead =>
        dsimp only
        generalize setSt lay.states (lay.idx.getD u deadIdx) _ = S
        cases S with
        | error e => rfl
        | ok A' => exact ih { lay with states := A' }
      | node w =>
        dsimp only
        generalize setSt lay.states (lay.idx.getD u deadIdx) _ = S
        cases S with
        | error e => rfl
        | ok A' => exact ih { lay with states := A' }

theorem index_getD {α : Type} (a : Array α) (i : Nat) (d : α) (h : i < a.size) :
    Rs.index a i = .ok (a.getD i d) := by
  simp [Rs.index, h, Array.getD]

theorem index_set_self {α : Type} (a : Array α) (i : Nat) (x : α) (h : i < a.size) :
    Rs.index (a.setIfInBounds i x) i = .ok x := by
  simp [Rs.index, h]

theorem set_set_eq_modify (A : Array St) (k op f : Nat) (h : k < A.size) :
    (A.setIfInBounds k { A.getD k stDefaultB with opos := op }).setIfInBounds k
        (Rs.St.set_fail { A.getD k stDefaultB with opos := op } f)
      = A.modify k (wFO op f) := by
  rw [Array.setIfInBounds_setIfInBounds, Tie.L.modify_eq_set A k h]
  have : A.getD k stDefaultB = A[k] := by simp [Array.getD, h]
  rw [this]
  rfl

/-- The generated code's triple of the item `(i, state)`. -/
def tripG (sm : Array Nat) (it : Nat × N.NfaBuilderState V) : Nat × Nat × Nat :=
  (sm.getD it.1 0, it.2.output_pos.getD 0,
   if it.2.fail = Gen.deadStateId then Gen.deadStateIdx else sm.getD it.2.fail 0)

/-- All indexing of the generated loop body is in range for this item. -/
def GoodItem (sm : Array Nat) (n : Nat) (it : Nat × N.NfaBuilderState V) : Prop :=
  it.1 ≠ Gen.deadStateId →
    it.1 < sm.size ∧ sm.getD it.1 0 < n ∧ (it.2.fail ≠ Gen.deadStateId → it.2.fail < sm.size)

theorem loop2_eq_foM (sm : Array Nat) : ∀ (items : List (Nat × N.NfaBuilderState V)) (b : LB.Builder),
    (∀ it ∈ items, GoodItem sm b.states.size it) →
    RelE (fun b' A => b'.states = A)
      (DB.Builder.build_double_array.loop2 sm items b)
      (foM ((items.filter (fun it => it.1 != Gen.deadStateId)).map (tripG sm)) b.states) := by
  intro items
  induction items with
  | nil => intro b _; rfl
  | cons it rest ih =>
    intro b hgood
    obtain ⟨i, st⟩ := it
    have hrest : ∀ b2 : LB.Builder, b2.states.size = b.states.size →
        ∀ it ∈ rest, GoodItem sm b2.states.size it := by
      intro b2 h2 it hit
      rw [h2]; exact hgood it (List.mem_cons_of_mem _ hit)
    simp only [DB.Builder.build_double_array.loop2]
    by_cases hd : i = Gen.deadStateId
    · have h1 : (i == Gen.deadStateId) = true := by simpa using hd
      have h2 : (i != Gen.deadStateId) = false := by simp [hd]
      rw [h1, List.filter_cons]
      simp only [h2, if_true, Bool.false_eq_true, if_false]
      exact ih b (hrest b rfl)
    · have h1 : (i == Gen.deadStateId) = false := by simpa using hd
      have h2 : (i != Gen.deadStateId) = true := by simp [hd]
      obtain ⟨g1, g2, g3⟩ := hgood (i, st) List.mem_cons_self hd
      simp only at g1 g2 g3
      rw [h1, List.filter_cons]
      simp only [h2, if_true, Bool.false_eq_true, if_false, List.map_cons, tripG, foM]
      rw [index_getD sm i 0 g1]
      simp only
      rw [index_getD b.states (sm.getD i 0) stDefaultB g2]
      simp only [Rs.St.set_output_pos]
      by_cases hop : st.output_pos.getD 0 ≤ Gen.u24Max
      · have hop' : ¬ st.output_pos.getD 0 > u24Max := by unfold u24Max; omega
        rw [if_pos hop, if_neg hop']
        simp only
        rw [setSt_lt _ g2]
        simp only
        by_cases hf : st.fail = Gen.deadStateId
        · have hfb : (st.fail == Gen.deadStateId) = true := by simpa using hf
          rw [hfb, if_pos hf]
          simp only [if_true]
          rw [index_set_self _ _ _ g2]
          simp only
          rw [set_set_eq_modify _ _ _ _ g2]
          exact ih { b with states := b.states.modify (sm.getD i 0) (wFO (st.output_pos.getD 0) Gen.deadStateIdx) }
            (hrest _ (by simp))
        · have hfb : (st.fail == Gen.deadStateId) = false := by simpa using hf
          rw [hfb, if_neg hf]
          simp only [Bool.false_eq_true, if_false]
          rw [index_getD sm st.fail 0 (g3 hf)]
          simp only
          rw [index_set_self _ _ _ g2]
          simp only
          rw [set_set_eq_modify _ _ _ _ g2]
          exact ih { b with states := b.states.modify (sm.getD i 0) (wFO (st.output_pos.getD 0) (sm.getD st.fail 0)) }
            (hrest _ (by simp))
      · have hop' : st.output_pos.getD 0 > u24Max := by unfold u24Max; omega
        rw [if_neg hop, if_pos hop']
        exact RelE.err (SameErr.rfl' _)

theorem mem_enumerateFrom {α : Type} : ∀ (l : List α) (n i : Nat) (x : α),
    (i, x) ∈ Rs.enumerateFrom n l ↔ n ≤ i ∧ l[i - n]? = some x := by
  intro l
  induction l with
  | nil => intro n i x; simp [Rs.enumerateFrom]
  | cons a l ih =>
    intro n i x
    simp only [Rs.enumerateFrom, List.mem_cons, Prod.mk.injEq, ih]
    constructor
    · rintro (⟨rfl, rfl⟩ | ⟨h1, h2⟩)
      · simp
      · refine ⟨by omega, ?_⟩
        have : i - n = (i - (n + 1)) + 1 := by omega
        rw [this, List.getElem?_cons_succ]
        exact h2
    · rintro ⟨h1, h2⟩
      by_cases hi : i = n
      · subst hi
        simp only [Nat.sub_self, List.getElem?_cons_zero, Option.some.injEq] at h2
        exact Or.inl ⟨rfl, h2.symm⟩
      · right
        refine ⟨by omega, ?_⟩
        have : i - n = (i - (n + 1)) + 1 := by omega
        rw [this, List.getElem?_cons_succ] at h2
        exact h2

theorem mem_enumerateA {α : Type} (a : Array α) (i : Nat) (x : α) :
    (i, x) ∈ Rs.enumerateA a ↔ a[i]? = some x := by
  unfold Rs.enumerateA Rs.enumerate
  rw [mem_enumerateFrom]
  simp

theorem getD_of_getElem? (a : Array Nat) (i k : Nat) (h : a[i]? = some k) : a.getD i 0 = k := by
  simp [Array.getD_eq_getD_getElem?, h]

theorem lt_of_getElem? {α : Type} (a : Array α) (i : Nat) (x : α) (h : a[i]? = some x) : i < a.size := by
  rcases Nat.lt_or_ge i a.size with h' | h'
  · exact h'
  · rw [Array.getElem?_eq_none h'] at h; cases h

/-- The fail targets of the model NFA are nodes of the trie. -/
def FailNodes (t : Trie V) (nfa : Nfa V) : Prop :=
  ∀ u w, t.hasNode u = true → nfa.fail.get u = .node w → t.hasNode w = true

/-- For a node `u` with state `st`, the generated code's triple is the model's. -/
theorem trip_eq (t : Trie V) (nfa : Nfa V) (g : N.NfaBuilder V) (ido : List Nat → Nat)
    (R : NfaRep g t nfa ido) (hfn : FailNodes t nfa)
    (b : LB.Builder) (gh : H.BuildHelper) (sm : Array Nat) (lay : Lay) (S : Sim t ido b gh sm lay)
    (u : List Nat) (hu : t.hasNode u = true) (st : N.NfaBuilderState V) (hst : g.states[ido u]? = some st) :
    tripG sm (ido u, st) = tripM nfa lay.idx u := by
  obtain ⟨s, hs, _, hfail, hop⟩ := R.node u hu
  rw [hst] at hs
  cases hs
  unfold tripG tripM LayB.failIdx
  simp only [getD_of_getElem? _ _ _ (S.map u hu), hop, Prod.mk.injEq, true_and]
  rw [hfail]
  cases hf : nfa.fail.get u with
  | dead => simp only [if_true]; rfl
  | node w =>
    have hw := hfn u w hu hf
    simp only [if_neg (R.neDead w hw), getD_of_getElem? _ _ _ (S.map w hw)]

/-- (3) The generated fail / output_pos pass = the model's `setFailOut` over all nodes. -/
theorem loop2_sim (t : Trie V) (nfa : Nfa V) (g : N.NfaBuilder V) (ido : List Nat → Nat)
    (R : NfaRep g t nfa ido) (hfn : FailNodes t nfa) (hsort : t.Sorted)
    (b : LB.Builder) (gh : H.BuildHelper) (sm : Array Nat) (lay : Lay) (S : Sim t ido b gh sm lay)
    (hJ : JB t lay []) :
    RelE (fun b' lay' => b'.states = lay'.states ∧ lay'.h = lay.h)
      (DB.Builder.build_double_array.loop2 sm (Rs.enumerateA g.states) b)
      (setFailOut .bytewise nfa (t.paths []) lay) := by
  obtain ⟨done, I⟩ := hJ
  have hpl : ∀ w, t.hasNode w = true → LayB.Pl t done w := fun w hw => I.node_pl hw
  have hix : ∀ w, t.hasNode w = true → lay.idx.getD w deadIdx < lay.states.size :=
    fun w hw => I.lt w (hpl w hw)
  have hpaths : ∀ u, u ∈ t.paths [] ↔ t.hasNode u = true := fun u => Trie.mem_paths_nil t hsort u
  -- every non-dead item is a node
  have hitem : ∀ i st, (i, st) ∈ Rs.enumerateA g.states → i ≠ Gen.deadStateId →
      ∃ u, t.hasNode u = true ∧ ido u = i ∧ g.states[ido u]? = some st := by
    intro i st hm hd
    have h1 := (mem_enumerateA _ _ _).1 hm
    obtain ⟨u, hu, rfl⟩ := R.onto i (lt_of_getElem? _ _ _ h1) hd
    exact ⟨u, hu, rfl, h1⟩
  have hgood : ∀ it ∈ Rs.enumerateA g.states, GoodItem sm b.states.size it := by
    rintro ⟨i, st⟩ hm hd
    obtain ⟨u, hu, rfl, hst⟩ := hitem i st hm hd
    have hsm := S.map u hu
    refine ⟨lt_of_getElem? _ _ _ hsm, ?_, ?_⟩
    · simp only [getD_of_getElem? _ _ _ hsm, S.states]
      exact hix u hu
    · intro hf
      obtain ⟨s, hs, _, hfail, _⟩ := R.node u hu
      rw [hst] at hs
      cases hs
      simp only at hf
      rw [hfail] at hf ⊢
      cases hfg : nfa.fail.get u with
      | dead => rw [hfg] at hf; exact absurd rfl hf
      | node w => exact lt_of_getElem? _ _ _ (S.map w (hfn u w hu hfg))
  have G := loop2_eq_foM sm (Rs.enumerateA g.states) b hgood
  rw [S.states] at G
  have E := foM_set_eq ((t.paths []).map (tripM nfa lay.idx))
    (((Rs.enumerateA g.states).filter (fun it => it.1 != Gen.deadStateId)).map (tripG sm)) lay.states
    (by
      intro x
      simp only [List.mem_map, List.mem_filter]
      constructor
      · rintro ⟨u, hu, rfl⟩
        have hn := (hpaths u).1 hu
        obtain ⟨s, hs, _⟩ := R.node u hn
        refine ⟨(ido u, s), ⟨(mem_enumerateA _ _ _).2 hs, by simpa using R.neDead u hn⟩, ?_⟩
        exact trip_eq t nfa g ido R hfn b gh sm lay S u hn s hs
      · rintro ⟨⟨i, st⟩, ⟨hm, hd⟩, rfl⟩
        obtain ⟨u, hu, rfl, hst⟩ := hitem i st hm (by simpa using hd)
        exact ⟨u, (hpaths u).2 hu, (trip_eq t nfa g ido R hfn b gh sm lay S u hu st hst).symm⟩)
    (by
      intro x hx
      obtain ⟨u, hu, rfl⟩ := List.mem_map.1 hx
      exact hix u ((hpaths u).1 hu))
    (by
      intro x y hx hy hxy
      obtain ⟨u, hu, rfl⟩ := List.mem_map.1 hx
      obtain ⟨u', hu', rfl⟩ := List.mem_map.1 hy
      have := I.inj u u' (hpl u ((hpaths u).1 hu)) (hpl u' ((hpaths u').1 hu')) hxy
      rw [this])
  rw [setFailOut_eq_foM]
  generalize DB.Builder.build_double_array.loop2 sm (Rs.enumerateA g.states) b = X at G ⊢
  generalize foM (List.map (tripM nfa lay.idx) (t.paths [])) lay.states = Y at E ⊢
  generalize foM (List.map (tripG sm) ((Rs.enumerateA g.states).filter (fun it => it.1 != Gen.deadStateId))) lay.states = Z at G E
  cases X <;> cases Y <;> cases Z <;> simp only [RelE, Except.map] at G E ⊢
  · exact fun γ => (G γ).trans (E γ).symm
  · first
      | exact ⟨G.trans E.symm, rfl⟩
      | exact G.trans E.symm
      | exact ⟨G.trans E.symm, trivial⟩

/-! ### (5) Composition -/

theorem genInit_wf (bl nfb : Nat) (gh : H.BuildHelper) (h : Tie.L.genInit bl nfb = .ok gh) : Wf gh := by
  unfold Tie.L.genInit at h
  split at h
  · cases h
  · rename_i r1 h0
    split at h
    · cases h
    · rename_i u1 s3 h1
      split at h
      · cases h
      · rename_i u2 s5 h2
        split at h
        · cases h
        · rename_i u3 s7 h3
          cases h
          exact wf_of_size (wf_of_size (wf_of_size (new_wf _ _ _ h0) (push_block_size _ _ _ h1))
            (use_index_size _ _ _ _ h2)) (use_index_size _ _ _ _ h3)

theorem map_states_match (X : Except BuildErr LB.Builder) :
    (match X with
      | .error e => (.error e : Except BuildErr (Unit × LB.Builder))
      | .ok self => .ok ((), self)).map (fun p : Unit × LB.Builder => p.2.states)
      = X.map (fun b : LB.Builder => b.states) := by
  cases X <;> rfl

/-- MAIN THEOREM.  The byte-wise `build_double_array` as translated from the Rust text computes the
table of the model's `buildLayout .bytewise` (up to panic texts), for every `NfaBuilder` that represents
the model NFA (`NfaRep`; `FailNodes`: the model's fail targets are trie nodes), on a sorted trie over
bytes, starting from an empty builder with the configured number of free blocks. -/
theorem build_double_array_refines (cfg : Cfg) (mapper : Mapper) (t : Trie V) (nfa : Nfa V)
    (g : N.NfaBuilder V) (ido : List Nat → Nat) (R : NfaRep g t nfa ido) (hfn : FailNodes t nfa)
    (hsort : t.Sorted) (hbytes : ∀ u, t.hasNode u = true → ∀ c ∈ u, c < 256) (hnfb : 1 ≤ cfg.nfb)
    (b : LB.Builder) (hb : b.states = #[]) (hn : b.num_free_blocks = cfg.nfb) :
    norm ((DB.Builder.build_double_array b g).map (·.2.states))
      = norm (buildLayout .bytewise cfg mapper t nfa) := by
  have hi := Tie.L.B.init_array_eq b hb
  rw [hn] at hi
  unfold DB.Builder.build_double_array
  by_cases hcap : blOf .bytewise mapper * cfg.nfb > u32Max
  · have hm : Tie.L.initModel .bytewise bytewiseBlockLen cfg.nfb = .error .automatonScale := by
      unfold Tie.L.initModel
      rw [show bytewiseBlockLen = blOf .bytewise mapper from rfl, Helper.new_scale hcap]
    have hbl : buildLayout .bytewise cfg mapper t nfa = .error .automatonScale := by
      rw [buildLayout_eq, Helper.new_scale hcap]
    rw [hm] at hi
    rcases norm_cases _ _ _ hi with ⟨a, _, x2⟩ | ⟨e1', e2', x1, x2, hee⟩
    · cases x2
    · rw [x1, hbl]
      cases x2
      exact hee _
  · obtain ⟨h0, h1, h2, h3, e0, e1, e2, e3, _, ll3⟩ :=
      Helper.init_ll (bl := blOf .bytewise mapper) (nfb := cfg.nfb) (show 2 ≤ (256 : Nat) by decide) hnfb (by omega)
    have e2' : h1.useIndex rootIdx = .ok h2 := e2
    have e3' : h2.useIndex deadIdx = .ok h3 := e3
    have hm : Tie.L.initModel .bytewise bytewiseBlockLen cfg.nfb
        = .ok (Array.replicate 256 stDefaultB, h3) := by
      unfold Tie.L.initModel
      rw [show bytewiseBlockLen = blOf .bytewise mapper from rfl, e0]
      simp only
      rw [e1]
      simp only
      rw [e2']
      simp only
      rw [e3']
      rfl
    have heq : buildLayout .bytewise cfg mapper t nfa =
        afterLoop .bytewise nfa t (layoutLoop .bytewise mapper t (t.size + 1) [[]]
          (initLay .bytewise (blOf .bytewise mapper) h3)) := by
      rw [buildLayout_eq, e0]
      simp only
      rw [e1]
      simp only
      rw [e2']
      simp only
      rw [e3']
    rw [hm] at hi
    rcases norm_cases _ _ _ hi with ⟨⟨gh, b1⟩, x1, x2⟩ | ⟨e1', e2', x1, x2, hee⟩
    · simp only [Except.ok.injEq, Prod.mk.injEq] at x2
      obtain ⟨xs, xh⟩ := x2
      have wfg : Wf gh := by
        rw [Tie.L.B.init_array_unfold] at x1
        cases hgi : Tie.L.genInit Gen.blockLen b.num_free_blocks with
        | error e => rw [hgi] at x1; cases x1
        | ok gh' =>
          rw [hgi] at x1
          simp only [Except.map, Except.ok.injEq, Prod.mk.injEq] at x1
          rw [← x1.1]
          exact genInit_wf _ _ _ hgi
      rw [x1, heq]
      simp only
      -- state_id_map
      have hgpos : 0 < g.states.size := by rw [R.size]; omega
      have hset : Rs.indexSet (Array.replicate g.states.size Gen.deadStateIdx) Gen.rootStateId Gen.rootStateIdx
          = .ok ((Array.replicate g.states.size Gen.deadStateIdx).setIfInBounds Gen.rootStateId Gen.rootStateIdx) := by
        simp [Rs.indexSet, Gen.rootStateId, hgpos]
      rw [hset]
      simp only
      have S0 : Sim t ido b1 gh
          ((Array.replicate g.states.size Gen.deadStateIdx).setIfInBounds Gen.rootStateId Gen.rootStateIdx)
          (initLay .bytewise (blOf .bytewise mapper) h3) := by
        refine ⟨xs.symm, xh.symm, wfg, ?_⟩
        intro u hu
        obtain ⟨s, hs, _⟩ := R.node u hu
        have hlt := lt_of_getElem? _ _ _ hs
        by_cases hu0 : u = []
        · subst hu0
          rw [R.root]
          simp [initLay, Array.getElem?_setIfInBounds]
          exact ⟨hgpos, rfl⟩
        · have hne : ido u ≠ Gen.rootStateId := by
            intro h
            exact hu0 (R.inj u [] hu (Trie.hasNode_nil t) (h.trans R.root.symm))
          have hb2 : (([] : List Nat) == u) = false := by
            cases u with
            | nil => exact absurd rfl hu0
            | cons a r => rfl
          rw [Array.getElem?_setIfInBounds_ne (Ne.symm hne)]
          simp [initLay, Std.HashMap.getD_insert, hb2, hlt, deadIdx]
      have J0 : JB t (initLay .bytewise (blOf .bytewise mapper) h3) [[]] := by
        refine ⟨[], ?_⟩
        have hsz : (initLay .bytewise (blOf .bytewise mapper) h3).states.size = 256 := by
          show (Array.replicate 256 (stDefault .bytewise)).size = 256
          rw [Array.size_replicate]
        rw [hsz]
        exact LayB.init_inv t e0 e1 e2 e3
      have hnode : ∀ u, t.hasNode u = true → ∃ s, g.states[ido u]? = some s ∧
          s.edges = (LayB.edgesB t u).map (fun e => (e.1, ido e.2)) := by
        intro u hu
        obtain ⟨s, h1, h2, _⟩ := R.node u hu
        exact ⟨s, h1, h2⟩
      have L := loop_sim mapper t ido g R.inj hnode hsort hbytes (t.size + 1) (g.states.size + 1) [[]]
        (initLay .bytewise (blOf .bytewise mapper) h3) [] _ b1 gh _ [] J0 ll3 (T.init t) (by simp)
        (by rw [R.size]; omega) (by
          show (Array.replicate 256 (stDefault .bytewise)).size ≤ 4294967295
          rw [Array.size_replicate]; decide) S0
      simp only [List.map_cons, List.map_nil, R.root] at L
      generalize DB.Builder.build_double_array.loop0 g (g.states.size + 1) b1 gh _ [Gen.rootStateId] [] = X at L ⊢
      generalize layoutLoop .bytewise mapper t (t.size + 1) [[]] (initLay .bytewise (blOf .bytewise mapper) h3) = Y at L ⊢
      cases X with
      | error ex =>
        cases Y with
        | error ey => exact L _
        | ok lay1 => exact L.elim
      | ok r =>
        cases Y with
        | error ey => exact L.elim
        | ok lay1 =>
          obtain ⟨b2, gh2, sm2, stk2, labels2⟩ := r
          obtain ⟨S2, J2, _⟩ := L
          simp only at S2 ⊢
          have L2 := loop2_sim t nfa g ido R hfn hsort b2 gh2 sm2 lay1 S2 J2
          unfold afterLoop
          simp only
          generalize DB.Builder.build_double_array.loop2 sm2 (Rs.enumerateA g.states) b2 = X2 at L2 ⊢
          generalize setFailOut .bytewise nfa (t.paths []) lay1 = Y2 at L2 ⊢
          cases X2 with
          | error ex =>
            cases Y2 with
            | error ey => exact L2 _
            | ok lay2 => exact L2.elim
          | ok b3 =>
            cases Y2 with
            | error ey => exact L2.elim
            | ok lay2 =>
              obtain ⟨hst, hh⟩ := L2
              simp only
              have F := final_loop_eq gh2 S2.wf b3
              rw [S2.helper, hst, ← hh] at F
              generalize DB.Builder.build_double_array.loop3 gh2 _ b3 = X3 at F ⊢
              cases X3 <;> exact F
    · cases x2

/-
TODO (unproved): what remains to connect `build_double_array_refines` to the rest of the pipeline.
Everything above is proved; nothing below is used.

 (a) `NfaRep` from the representation relation of Proofs/TieN.lean.  `NfaRep g t nfa ido` is the flat
     form of `TieN.Rep g.states pth t 0 []` (edges / outputs) + the two conditions of the task
     statement on `fail` and `output_pos`; `ido u` := the id with `pth id = some u` (injective because
     `pth` is a function; `ido [] = 0`; `ido u ≠ 1` because `pth 1 = none` in `TieN.RepAcc`);
     `size` / `onto` say that every state except the dead one represents a node (`g.states.size =
     t.size + 1`), which `TieN.add_refines` maintains but does not yet export:

       theorem nfaRep_of_rep (g : N.NfaBuilder V) (t : Trie V) (nfa : Nfa V) (pth : Nat → Option (List Nat))
           (hrep : TieN.Rep g.states pth t 0 []) (hdead : pth 1 = none)
           (hall : ∀ i, i < g.states.size → i ≠ 1 → ∃ u, pth i = some u ∧ t.hasNode u = true)
           (hfail : ∀ i u s, pth i = some u → g.states[i]? = some s →
              (match nfa.fail.get u with
                | .dead => s.fail = Gen.deadStateId
                | .node w => pth s.fail = some w) ∧ s.output_pos.getD 0 = nfa.out.opos.getD u 0) :
           ∃ ido, NfaRep g t nfa ido

 (b) `FailNodes t (buildNfa t leftmost)`: the fail targets of the model NFA are trie nodes (they are
     proper suffixes found by walking the trie; cf. Proofs/NfaStd.lean / NfaLm.lean).
-/

end Daac.Tie.D

#print axioms Daac.Tie.D.loop1_sim
#print axioms Daac.Tie.D.step_sim
#print axioms Daac.Tie.D.loop_sim
#print axioms Daac.Tie.D.loop2_sim
#print axioms Daac.Tie.D.final_loop_eq
#print axioms Daac.Tie.D.build_double_array_refines

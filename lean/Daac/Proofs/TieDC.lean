/-
Translation tie, construction side, CHAR-WISE builder:
`CharwiseDoubleArrayAhoCorasickBuilder::build_double_array` GENERATED from the repository's
`src/charwise/builder.rs` by tools/dbl2lean.py (`Daac/Gen/BuildC.lean`, keyed by the state ids of the
sparse NFA, `state_id_map : Array Nat`, edges mapped through `CodeMapper::get` and sorted by
`sort_by` on the code) against the hand-written model `buildLayout .charwise` (Daac/Model/Build.lean,
keyed by trie paths, edges inserted by `insertByCodeP`).

Same structure as Proofs/TieD.lean (whose `RelE`, `NfaRep`, `FailNodes`, `IdInj` are reused): the
primitives (`find_base`, `extend_array`, `init_array`, every `BuildHelper` method) are tied to the
model in Proofs/TieH, Proofs/TieL; the loops around them are related by the simulation `Sim`.  New
here: (0) the `mapped` list — `Rs.sortByFst` (stable insertion sort, `≤`) of the mapped edges is the
model's `edgeCodes .charwise` (insertion with `<`) because the codes of the edges of a node are
pairwise distinct.  The fail / output_pos pass (3) is in Proofs/TieDCFail.lean (`loop2_sim_c`).
-/
import Daac.Gen.BuildC
import Daac.Proofs.TieD
import Daac.Proofs.TieDCFail
namespace Daac.Tie.DC
open Daac Daac.Gen Daac.Tie.H Daac.Tie.D
variable {V : Type}

/-! ### (0) `mapper.get`, `sort_by` and the model's `edgeCodes .charwise` -/

/-- The prelude's `CodeMapper.get` (textually the definition generated from src/charwise/mapper.rs) is
the model's `Mapper.get`. -/
theorem codeMapper_get_eq (m : Mapper) (c : Nat) : Rs.CodeMapper.get m c = m.get c := by
  unfold Rs.CodeMapper.get Mapper.get
  cases m.table[c]? with
  | none => rfl
  | some code =>
    simp only [invalidCode]
    by_cases h : code = Gen.invalidCode
    · simp [h]
    · simp [h]

/-- The rename of the model's edge (code, child path) to the generated (code, child id). -/
def toId (ido : List Nat → Nat) (e : Nat × List Nat) : Nat × Nat := (e.1, ido e.2)

/-- Insertion with `<` (model) = insertion with `≤` (stable sort) when the key is new. -/
theorem map_insertByCodeP (ido : List Nat → Nat) (x : Nat × List Nat) :
    ∀ (l : List (Nat × List Nat)), x.1 ∉ l.map (·.1) →
      (insertByCodeP x l).map (toId ido) = Rs.insertByFst (toId ido x) (l.map (toId ido)) := by
  intro l
  induction l with
  | nil => intro _; rfl
  | cons y r ih =>
    intro hx
    simp only [List.map_cons, List.mem_cons, not_or] at hx
    unfold insertByCodeP
    simp only [List.map_cons, Rs.insertByFst, toId]
    by_cases hlt : x.1 < y.1
    · have hle : x.1 ≤ y.1 := Nat.le_of_lt hlt
      simp only [hlt, hle, if_true, List.map_cons, toId]
    · have hle : ¬ x.1 ≤ y.1 := by
        intro h
        have := hx.1
        omega
      simp only [hlt, hle, if_false, List.map_cons, toId]
      have := ih hx.2
      simp only [toId] at this
      rw [this]

/-- The model's edge list as a pure fold (all labels mapped; `kf w` is the code of the last label). -/
def edgesOf (kf : List Nat → Nat) (cp : List (List Nat)) : List (Nat × List Nat) :=
  cp.foldr (fun w acc => insertByCodeP (kf w, w) acc) []

theorem edgesOf_perm (kf : List Nat → Nat) (cp : List (List Nat)) :
    (edgesOf kf cp).Perm (cp.map (fun w => (kf w, w))) := by
  induction cp with
  | nil => exact List.Perm.refl _
  | cons w r ih =>
    simp only [edgesOf, List.foldr_cons, List.map_cons]
    exact (LayC.insertByCodeP_perm _ _).trans (List.Perm.cons _ ih)

/-- `sort_by` of the mapped edges = the model's edge list, for pairwise distinct codes. -/
theorem sortByFst_map_eq (ido : List Nat → Nat) (kf : List Nat → Nat) :
    ∀ (cp : List (List Nat)), (cp.map kf).Nodup →
      Rs.sortByFst (cp.map (fun w => (kf w, ido w))) = (edgesOf kf cp).map (toId ido) := by
  intro cp
  induction cp with
  | nil => intro _; rfl
  | cons w r ih =>
    intro hnd
    simp only [List.map_cons, List.nodup_cons] at hnd
    have hr := ih hnd.2
    simp only [Rs.sortByFst, List.map_cons, List.foldr_cons] at hr ⊢
    rw [hr]
    simp only [edgesOf, List.foldr_cons]
    rw [map_insertByCodeP]
    · rfl
    · intro hmem
      apply hnd.1
      have hp := ((edgesOf_perm kf r).map (·.1))
      have := hp.mem_iff.1 hmem
      simpa [List.map_map, Function.comp_def] using this

theorem ecStep_foldl_eq (m : Mapper) (kf : List Nat → Nat) (L : List (List Nat))
    (h : ∀ w ∈ L, m.get (w.getLastD 0) = some (kf w)) : ∀ (l0 : List (Nat × List Nat)),
    L.foldl (LayC.ecStep m) (.ok l0) = .ok (L.foldl (fun acc w => insertByCodeP (kf w, w) acc) l0) := by
  induction L with
  | nil => intro l0; rfl
  | cons w L ih =>
    intro l0
    have : LayC.ecStep m (.ok l0) w = .ok (insertByCodeP (kf w, w) l0) := by
      unfold LayC.ecStep; rw [h w List.mem_cons_self]
    rw [List.foldl_cons, this, ih (fun w' hw' => h w' (List.mem_cons_of_mem _ hw'))]
    rfl

/-- The model's `edgeCodes .charwise` when every child label is mapped. -/
theorem edgeCodes_eq_edgesOf (m : Mapper) (t : Trie V) (u : List Nat) (kf : List Nat → Nat)
    (h : ∀ w ∈ t.childPaths u, m.get (w.getLastD 0) = some (kf w)) :
    edgeCodes .charwise m t u = .ok (edgesOf kf (t.childPaths u)) := by
  rw [LayC.edgeCodes_eq, ecStep_foldl_eq m kf _ (fun w hw => h w (List.mem_reverse.1 hw)), List.foldl_reverse]
  rfl

/-- (0a) The generated `for (&label, &child_id) in &s.edges { mapped.push((mapper.get(label).unwrap(), child_id)) }`. -/
theorem loop1_eq (b : LC.Builder) (ido : List Nat → Nat) (kf : List Nat → Nat) :
    ∀ (cp : List (List Nat)), (∀ w ∈ cp, b.mapper.get (w.getLastD 0) = some (kf w)) →
    ∀ (acc : List (Nat × Nat)),
      DC.Builder.build_double_array.loop1 b (cp.map (fun w => (w.getLastD 0, ido w))) acc
        = .ok (acc ++ cp.map (fun w => (kf w, ido w))) := by
  intro cp
  induction cp with
  | nil => intro _ acc; simp [DC.Builder.build_double_array.loop1]
  | cons w r ih =>
    intro h acc
    simp only [List.map_cons, DC.Builder.build_double_array.loop1]
    rw [codeMapper_get_eq, h w List.mem_cons_self]
    simp only
    rw [ih (fun w' hw' => h w' (List.mem_cons_of_mem _ hw'))]
    simp

/-! ### The simulation relation -/

/-- The Rust-side loop state (builder, helper, `state_id_map`) represents the model-side `lay`; the
builder's mapper and block length are the loop constants `m` and `BL`. -/
structure Sim (m : Mapper) (BL : Nat) (t : Trie V) (ido : List Nat → Nat) (b : LC.Builder) (g : H.BuildHelper)
    (sm : Array Nat) (lay : Lay) : Prop where
  states : b.states = lay.states
  helper : repr g = lay.h
  wf : Wf g
  map : ∀ u, t.hasNode u = true → sm[ido u]? = some (lay.idx.getD u deadIdx)
  mp : b.mapper = m
  blk : b.block_len = BL

/-! ### (1a) The `for &(c, child_id) in &mapped` loop = `placeChildren .charwise` -/

theorem loop1_sim_c (m : Mapper) (BL : Nat) (t : Trie V) (ido : List Nat → Nat) (hinj : IdInj t ido) (sidx base : Nat) :
    ∀ (edges : List (Nat × List Nat)), (∀ e ∈ edges, t.hasNode e.2 = true) →
    ∀ (b : LC.Builder) (g : H.BuildHelper) (sm : Array Nat) (stk : List Nat) (lay : Lay),
    Sim m BL t ido b g sm lay →
    RelE (fun r lay' => Sim m BL t ido r.1 r.2.1 r.2.2.1 lay' ∧
            r.2.2.2 = (edges.map (fun e => ido e.2)).reverse ++ stk)
      (DC.Builder.build_double_array.loop2 sidx base (edges.map (toId ido)) b g sm stk)
      (placeChildren .charwise sidx base edges lay) := by
  intro edges
  induction edges with
  | nil =>
    intro _ b g sm stk lay S
    simp only [List.map_nil, DC.Builder.build_double_array.loop2, placeChildren, RelE]
    exact ⟨S, rfl⟩
  | cons e0 rest ih =>
    intro hn b g sm stk lay S
    obtain ⟨c, child⟩ := e0
    have hchild : t.hasNode child = true := hn (c, child) List.mem_cons_self
    have hrest : ∀ e ∈ rest, t.hasNode e.2 = true := fun e he => hn e (List.mem_cons_of_mem _ he)
    simp only [List.map_cons, toId, DC.Builder.build_double_array.loop2]
    rw [placeChildren_cons]
    have hu := use_index_eq g S.wf (base ^^^ c)
    rw [S.helper] at hu
    rcases norm_cases _ _ _ hu with ⟨⟨u, g'⟩, hg, hm⟩ | ⟨e1, e2, hg, hm, he⟩
    · rw [hg, hm]
      simp only
      have wf' : Wf g' := wf_of_size S.wf (use_index_size _ _ _ _ hg)
      rw [S.states]
      rcases Tie.L.index_setSt lay.states (base ^^^ c) sidx with ⟨el, h1, h2⟩ | ⟨s1, s2, h1, h2⟩
      · have h2' : setSt lay.states (base ^^^ c) (fun st => { st with check := chkOf .charwise c sidx })
            = .ok (lay.states.setIfInBounds (base ^^^ c) { el with check := sidx }) := h2
        rw [h1, h2']
        simp only
        have hsm := S.map child hchild
        rw [indexSet_ok sm (ido child) _ (base ^^^ c) hsm]
        simp only
        have S' : Sim m BL t ido { b with states := lay.states.setIfInBounds (base ^^^ c) (Rs.StC.set_check el sidx) } g'
            (sm.setIfInBounds (ido child) (base ^^^ c))
            ⟨lay.states.setIfInBounds (base ^^^ c) { el with check := sidx }, repr g',
              lay.idx.insert child (base ^^^ c)⟩ := by
          refine ⟨rfl, rfl, wf', ?_, S.mp, S.blk⟩
          intro w hw
          simp only [Std.HashMap.getD_insert]
          by_cases hcw : child = w
          · subst hcw
            simp only [beq_self_eq_true, if_true]
            have hlt : ido child < sm.size := lt_of_getElem? _ _ _ hsm
            simp [hlt]
          · have hne : ido child ≠ ido w := fun h => hcw (hinj child w hchild hw h)
            have hb : (child == w) = false := by simpa using hcw
            simp only [hb, Bool.false_eq_true, if_false]
            rw [Array.getElem?_setIfInBounds_ne hne]
            exact S.map w hw
        have := ih hrest _ g' _ (ido child :: stk) _ S'
        refine RelE.mono this ?_
        intro r lay' ⟨h1, h2⟩
        refine ⟨h1, ?_⟩
        rw [h2]; simp
      · have h2' : setSt lay.states (base ^^^ c) (fun st => { st with check := chkOf .charwise c sidx })
            = .error (.panic s2) := h2
        rw [h1, h2']
        exact RelE.err (SameErr.panic _ _)
    · rw [hg, hm]
      exact RelE.err he

/-! ### (1b) One iteration of `while let Some(state_id) = stack.pop()` -/

/-- The body of the generated DFS loop (proof-internal; `loop0_succ` shows that the generated loop is
exactly this body followed by the recursive call). -/
def genStep (nfa : N.NfaBuilder V) (b : LC.Builder) (g : H.BuildHelper) (sm : Array Nat) (sid : Nat)
    (stk : List Nat) (mapped : List (Nat × Nat)) :
    Except BuildErr (LC.Builder × H.BuildHelper × Array Nat × List Nat × List (Nat × Nat)) :=
  match Rs.index nfa.states sid with
  | .error e => .error e
  | .ok s =>
    match Rs.index sm sid with
    | .error e => .error e
    | .ok sidx =>
      if List.isEmpty s.edges then .ok (b, g, sm, stk, mapped) else
      match DC.Builder.build_double_array.loop1 b s.edges [] with
      | .error e => .error e
      | .ok mapped =>
        let mapped := Rs.sortByFst mapped
        match LC.Builder.find_base b mapped g with
        | .error e => .error e
        | .ok base =>
          match ((if decide (b.states.size ≤ base) then
              match LC.Builder.extend_array b g with
              | .error e => .error e
              | .ok (_, b, g) => .ok (b, g)
            else .ok (b, g)) : Except BuildErr (LC.Builder × H.BuildHelper)) with
          | .error e => .error e
          | .ok (b, g) =>
            match DC.Builder.build_double_array.loop2 sidx base mapped b g sm stk with
            | .error e => .error e
            | .ok (b, g, sm, stk) =>
              match Rs.index b.states sidx with
              | .error e => .error e
              | .ok el =>
                .ok ({ b with states := b.states.setIfInBounds sidx (Rs.StC.set_base el base) }, g, sm, stk, mapped)

theorem loop0_nil (nfa : N.NfaBuilder V) (fuel : Nat) (b : LC.Builder) (g : H.BuildHelper) (sm : Array Nat)
    (mapped : List (Nat × Nat)) :
    DC.Builder.build_double_array.loop0 nfa (fuel + 1) b g sm [] mapped = .ok (b, g, sm, [], mapped) := by
  simp only [DC.Builder.build_double_array.loop0]

theorem loop0_succ (nfa : N.NfaBuilder V) (fuel : Nat) (b : LC.Builder) (g : H.BuildHelper) (sm : Array Nat)
    (sid : Nat) (stk : List Nat) (mapped : List (Nat × Nat)) :
    DC.Builder.build_double_array.loop0 nfa (fuel + 1) b g sm (sid :: stk) mapped =
      match genStep nfa b g sm sid stk mapped with
      | .error e => .error e
      | .ok (b', g', sm', stk', mapped') => DC.Builder.build_double_array.loop0 nfa fuel b' g' sm' stk' mapped' := by
  simp only [DC.Builder.build_double_array.loop0, genStep]
  cases Rs.index nfa.states sid with
  | error e => rfl
  | ok s =>
    dsimp only
    cases Rs.index sm sid with
    | error e => rfl
    | ok sidx =>
      dsimp only
      cases hE : List.isEmpty s.edges with
      | true => simp only [if_true]
      | false =>
        simp only [Bool.false_eq_true, if_false]
        cases DC.Builder.build_double_array.loop1 b s.edges [] with
        | error e => rfl
        | ok mp =>
          dsimp only
          cases LC.Builder.find_base b (Rs.sortByFst mp) g with
          | error e => rfl
          | ok base =>
            dsimp only
            generalize (if decide (b.states.size ≤ base) then _ else _ :
              Except BuildErr (LC.Builder × H.BuildHelper)) = X
            cases X with
            | error e => rfl
            | ok p =>
              obtain ⟨b1, g1⟩ := p
              dsimp only
              cases DC.Builder.build_double_array.loop2 sidx base (Rs.sortByFst mp) b1 g1 sm stk with
              | error e => rfl
              | ok q =>
                obtain ⟨b2, g2, sm2, stk2⟩ := q
                dsimp only
                cases Rs.index b2.states sidx with
                | error e => rfl
                | ok el => rfl

theorem extend_array_fields (b b1 : LC.Builder) (g g1 : H.BuildHelper) (u : Unit)
    (h : LC.Builder.extend_array b g = .ok (u, b1, g1)) :
    g1.items.size = g.items.size ∧ b1.mapper = b.mapper ∧ b1.block_len = b.block_len := by
  unfold LC.Builder.extend_array at h
  split at h
  · cases h
  · split at h
    · cases h
    · rename_i r1 s2 hp
      simp only [Except.ok.injEq, Prod.mk.injEq] at h
      obtain ⟨_, rfl, rfl⟩ := h
      exact ⟨push_block_size _ _ _ hp, rfl, rfl⟩

/-- The part of the loop body after the array has been extended = `stepTail .charwise`. -/
theorem tail_sim (m : Mapper) (BL : Nat) (t : Trie V) (ido : List Nat → Nat) (hinj : IdInj t ido)
    (edges : List (Nat × List Nat)) (hnode : ∀ e ∈ edges, t.hasNode e.2 = true)
    (b1 : LC.Builder) (g1 : H.BuildHelper) (sm : Array Nat) (lay1 : Lay) (S1 : Sim m BL t ido b1 g1 sm lay1)
    (sidx base : Nat) (pstk : List (List Nat)) (mapped : List (Nat × Nat)) :
    RelE (fun r p => Sim m BL t ido r.1 r.2.1 r.2.2.1 p.2 ∧ r.2.2.2.1 = p.1.map ido)
      (match DC.Builder.build_double_array.loop2 sidx base (edges.map (toId ido)) b1 g1 sm (pstk.map ido) with
        | .error e => .error e
        | .ok (b, g, sm, stk) =>
          match Rs.index b.states sidx with
          | .error e => .error e
          | .ok el =>
            (.ok ({ b with states := b.states.setIfInBounds sidx (Rs.StC.set_base el base) }, g, sm, stk, mapped) :
              Except BuildErr (LC.Builder × H.BuildHelper × Array Nat × List Nat × List (Nat × Nat))))
      (stepTail .charwise sidx base edges pstk lay1) := by
  have h1 := loop1_sim_c m BL t ido hinj sidx base edges hnode b1 g1 sm (pstk.map ido) lay1 S1
  unfold stepTail
  cases hl : DC.Builder.build_double_array.loop2 sidx base (edges.map (toId ido)) b1 g1 sm (pstk.map ido) with
  | error e1 =>
    cases hp : placeChildren .charwise sidx base edges lay1 with
    | error e2 => rw [hl, hp] at h1; exact h1
    | ok lay2 => rw [hl, hp] at h1; exact h1.elim
  | ok r =>
    obtain ⟨b2, g2, sm2, stk2⟩ := r
    cases hp : placeChildren .charwise sidx base edges lay1 with
    | error e2 => rw [hl, hp] at h1; exact h1.elim
    | ok lay2 =>
      rw [hl, hp] at h1
      obtain ⟨S2, hstk⟩ : Sim m BL t ido b2 g2 sm2 lay2 ∧ stk2 = (edges.map (fun e => ido e.2)).reverse ++ pstk.map ido := h1
      simp only
      rw [S2.states]
      rcases index_setSt' lay2.states sidx (fun st => { st with base := base }) with ⟨el, i1, i2⟩ | ⟨s1, s2, i1, i2⟩
      · rw [i1, i2]
        simp only [RelE]
        refine ⟨⟨rfl, S2.helper, S2.wf, S2.map, S2.mp, S2.blk⟩, ?_⟩
        rw [hstk]
        simp [List.map_reverse, List.map_map, Function.comp_def]
      · rw [i1, i2]
        exact RelE.err (SameErr.panic _ _)

theorem edgesOf_length (kf : List Nat → Nat) (cp : List (List Nat)) : (edgesOf kf cp).length = cp.length := by
  have := (edgesOf_perm kf cp).length_eq
  simpa using this

theorem edgesOf_node (kf : List Nat → Nat) (t : Trie V) (u : List Nat) :
    ∀ e ∈ edgesOf kf (t.childPaths u), t.hasNode e.2 = true := by
  intro e he
  have := (edgesOf_perm kf (t.childPaths u)).mem_iff.1 he
  obtain ⟨w, hw, rfl⟩ := List.mem_map.1 this
  obtain ⟨c, rfl, hc, _⟩ := (Trie.mem_childPaths t u w).1 hw
  exact hc

/-- (1b) One DFS step: the generated loop body = the model's `layoutStep .charwise`, under the simulation.
`kf` gives the code of the last label of a child path. -/
theorem step_sim_c (m : Mapper) (BL : Nat) (t : Trie V) (ido : List Nat → Nat) (hinj : IdInj t ido)
    (nfa : N.NfaBuilder V) (u : List Nat) (hu : t.hasNode u = true) (s : N.NfaBuilderState V)
    (hs : nfa.states[ido u]? = some s)
    (he : s.edges = (LayB.edgesB t u).map (fun e => (e.1, ido e.2)))
    (kf : List Nat → Nat) (hk : ∀ w ∈ t.childPaths u, m.get (w.getLastD 0) = some (kf w))
    (hnd : ((t.childPaths u).map kf).Nodup)
    (b : LC.Builder) (g : H.BuildHelper) (sm : Array Nat) (lay : Lay) (S : Sim m BL t ido b g sm lay)
    (vac : List Nat) (mwf : lay.h.WF) (ll : lay.h.LL vac) (hbl : lay.h.blockLen = BL)
    (hsz : lay.states.size ≤ 4294967295)
    (hz : ∀ e ∈ edgesOf kf (t.childPaths u), lay.states.size ^^^ e.1 ≠ 0)
    (pstk : List (List Nat)) (mapped : List (Nat × Nat)) :
    RelE (fun r p => Sim m BL t ido r.1 r.2.1 r.2.2.1 p.2 ∧ r.2.2.2.1 = p.1.map ido)
      (genStep nfa b g sm (ido u) (pstk.map ido) mapped)
      (layoutStep .charwise m t u pstk lay) := by
  have hec := edgeCodes_eq_edgesOf m t u kf hk
  have hnode := edgesOf_node kf t u
  have hse : s.edges = (t.childPaths u).map (fun w => (w.getLastD 0, ido w)) := by
    rw [he]; unfold LayB.edgesB; rw [List.map_map]; rfl
  have hl1 : DC.Builder.build_double_array.loop1 b s.edges []
      = .ok ((t.childPaths u).map (fun w => (kf w, ido w))) := by
    rw [hse, loop1_eq b ido kf _ (by rw [S.mp]; exact hk)]
    rfl
  have hsort := sortByFst_map_eq ido kf (t.childPaths u) hnd
  have hlen := edgesOf_length kf (t.childPaths u)
  unfold genStep
  rw [index_ok' _ _ _ hs, index_ok' _ _ _ (S.map u hu)]
  simp only [hl1, hsort]
  cases hE : edgesOf kf (t.childPaths u) with
  | nil =>
    rw [hE] at hec hlen
    have hcp : t.childPaths u = [] := List.eq_nil_of_length_eq_zero (by simpa using hlen.symm)
    rw [layoutStep_nil pstk lay hec, hse, hcp]
    simp only [List.map_nil, List.isEmpty_nil, if_true, RelE]
    exact ⟨S, trivial⟩
  | cons e0 rest =>
    rw [hE] at hec hnode hlen hz
    rw [layoutStep_cons pstk lay hec]
    have hne : List.isEmpty s.edges = false := by
      rw [hse]
      cases hcp : t.childPaths u with
      | nil => rw [hcp] at hlen; simp at hlen
      | cons w r => rfl
    rw [hne]
    simp only [Bool.false_eq_true, if_false]
    have G : Props.TieBuild.Good g vac :=
      ⟨S.wf, by rw [S.helper]; exact mwf, by rw [S.helper]; exact ll⟩
    have hcodes : ((e0 :: rest).map (toId ido)).map (·.1) = (e0 :: rest).map (·.1) := by
      rw [List.map_map]; rfl
    have hfb := Props.TieBuild.generated_find_base_charwise b g vac G lay.idx ((e0 :: rest).map (toId ido))
      (by simp) (by rw [S.states]; exact hsz)
      (by
        rw [hcodes, S.states]
        exact hz e0 List.mem_cons_self)
    rw [S.states, S.helper, hcodes] at hfb
    have hlay : (⟨lay.states, lay.h, lay.idx⟩ : Lay) = lay := rfl
    rw [hlay] at hfb
    rcases norm_cases' _ _ hfb with ⟨base, f1, f2⟩ | ⟨e1, e2, f1, f2, hee⟩
    · rw [f1, f2]
      simp only
      have hb : g.block_len = b.block_len := by
        have := hbl
        rw [← S.helper] at this
        rw [S.blk]
        exact this
      by_cases hge : lay.states.size ≤ base
      · have hd : decide (b.states.size ≤ base) = true := by rw [S.states]; simpa using hge
        rw [if_pos hge, hd]
        simp only [if_true]
        have hx := Tie.L.C.extend_array_eq b g S.wf hb lay.idx
        rw [S.states, S.helper, hlay] at hx
        cases hxa : extendArray .charwise lay with
        | error e2 =>
          rw [hxa] at hx
          rcases norm_cases _ _ _ hx with ⟨a, _, x2⟩ | ⟨e1', e2', x1, x2, hee⟩
          · cases x2
          · rw [x1]
            simp only [Except.map, Except.error.injEq] at x2
            subst x2
            exact RelE.err hee
        | ok lay1 =>
          rw [hxa] at hx
          rcases norm_cases _ _ _ hx with ⟨⟨uu, b1, g1⟩, x1, x2⟩ | ⟨e1', e2', x1, x2, hee⟩
          · rw [x1]
            simp only [Except.map, Except.ok.injEq, Prod.mk.injEq] at x2
            obtain ⟨f1', f2', f3'⟩ := extend_array_fields _ _ _ _ _ x1
            have S1 : Sim m BL t ido b1 g1 sm lay1 :=
              ⟨x2.1.symm, x2.2.symm, wf_of_size S.wf f1',
               by rw [D.extendArray_idx _ _ _ hxa]; exact S.map, f2'.trans S.mp, f3'.trans S.blk⟩
            exact tail_sim m BL t ido hinj (e0 :: rest) hnode b1 g1 sm lay1 S1 _ base pstk _
          · cases x2
      · have hd : decide (b.states.size ≤ base) = false := by rw [S.states]; simpa using hge
        rw [if_neg hge, hd]
        simp only [Bool.false_eq_true, if_false]
        exact tail_sim m BL t ido hinj (e0 :: rest) hnode b g sm lay S _ base pstk _
    · rw [f1, f2]
      exact RelE.err hee

/-! ### Size facts of the model step (the `u32` bound that `find_base` relies on) -/

theorem extendArray_bound_c (lay lay1 : Lay) (hpos : 0 < lay.states.size)
    (h : extendArray .charwise lay = .ok lay1) : lay1.states.size ≤ 4294967295 := by
  rw [extendArray_eq] at h
  split at h
  · cases h
  · rename_i hbig
    have hs : sanitisedOf .charwise lay = .ok lay.states := by
      unfold sanitisedOf
      split
      · rename_i hv _; cases hv
      · rfl
    rw [hs] at h
    simp only at h
    split at h
    · cases h
    · cases h
      unfold u32Max at hbig
      simp only [Array.size_append, Array.size_replicate]
      omega

theorem layoutStep_bound_c {m : Mapper} {t : Trie V} {u : List Nat} {stack stack' : List (List Nat)}
    {lay lay' : Lay} (hpos : 0 < lay.states.size) (hle : lay.states.size ≤ 4294967295)
    (h : layoutStep .charwise m t u stack lay = .ok (stack', lay')) : lay'.states.size ≤ 4294967295 := by
  cases hec : edgeCodes .charwise m t u with
  | error e =>
    unfold layoutStep at h
    rw [hec] at h
    cases h
  | ok edges =>
    cases edges with
    | nil =>
      rw [layoutStep_nil stack lay hec] at h
      cases h; exact hle
    | cons e0 rest =>
      rw [layoutStep_cons stack lay hec] at h
      split at h
      · cases h
      · split at h
        · cases h
        · rename_i lay1 hx
          have h1 : lay1.states.size ≤ 4294967295 := by
            split at hx
            · exact extendArray_bound_c lay lay1 hpos hx
            · cases hx; exact hle
          unfold stepTail at h
          split at h
          · cases h
          · rename_i lay2 hp
            split at h
            · cases h
            · rename_i st' hs
              simp only [Except.ok.injEq, Prod.mk.injEq] at h
              obtain ⟨_, rfl⟩ := h
              show st'.size ≤ 4294967295
              rw [setSt_size hs, placeChildren_size _ _ _ _ _ _ hp]
              exact h1

/-! ### (2) The DFS loop -/

/-- The code of the last label of a child path (`0` if unmapped; never used then). -/
def codeOf (m : Mapper) (w : List Nat) : Nat := (m.get (w.getLastD 0)).getD 0

/-- The generated DFS loop = the model's `layoutLoop .charwise`, under the simulation: from related
states, with the model-side invariant `LayC.Inv` and enough fuel on both sides, both loops fail alike or
end in related states. -/
theorem loop_sim_c (m : Mapper) (BL n : Nat) (hpow : BL = 2 ^ n) (hBL2 : 2 ≤ BL) (hα : m.alphaSize ≤ BL)
    (hm : LayC.MapperOk m) (t : Trie V) (ido : List Nat → Nat) (nfa : N.NfaBuilder V)
    (hinj : IdInj t ido)
    (hnode : ∀ u, t.hasNode u = true → ∃ s, nfa.states[ido u]? = some s ∧
      s.edges = (LayB.edgesB t u).map (fun e => (e.1, ido e.2)))
    (hsort : t.Sorted) (hmap : ∀ u, t.hasNode u = true → ∀ c ∈ u, ∃ k, m.get c = some k) :
    ∀ (fm fg : Nat) (pstk : List (List Nat)) (lay : Lay) (seen : List (List Nat)) (vac : List Nat)
      (b : LC.Builder) (g : H.BuildHelper) (sm : Array Nat) (mapped : List (Nat × Nat)),
      LayC.Inv m t BL lay pstk → lay.h.LL vac → T t seen pstk → t.size + 1 ≤ fm + seen.length → fm + 1 ≤ fg →
      lay.states.size ≤ 4294967295 → Sim m BL t ido b g sm lay →
      RelE (fun r lay' => Sim m BL t ido r.1 r.2.1 r.2.2.1 lay' ∧ LayC.Inv m t BL lay' [] ∧
              lay'.states.size ≤ 4294967295)
        (DC.Builder.build_double_array.loop0 nfa fg b g sm (pstk.map ido) mapped)
        (layoutLoop .charwise m t fm pstk lay) := by
  intro fm
  induction fm with
  | zero =>
    intro fg pstk lay seen vac b g sm mapped hj ll tt hf hfg hle S
    cases pstk with
    | nil =>
      obtain ⟨fg', rfl⟩ : ∃ k, fg = k + 1 := ⟨fg - 1, by omega⟩
      rw [List.map_nil, loop0_nil, layoutLoop_nil]
      exact ⟨S, hj, hle⟩
    | cons u rest =>
      have := tt.length_le hsort
      simp only [List.length_cons] at this
      omega
  | succ fm ih =>
    intro fg pstk lay seen vac b g sm mapped I ll tt hf hfg hle S
    obtain ⟨fg', rfl⟩ : ∃ k, fg = k + 1 := ⟨fg - 1, by omega⟩
    cases pstk with
    | nil =>
      rw [List.map_nil, loop0_nil, layoutLoop_nil]
      exact ⟨S, I, hle⟩
    | cons u rest =>
      have hu : t.hasNode u = true := tt.node u (List.mem_append_right _ List.mem_cons_self)
      obtain ⟨edges, hec, nd1, hclt, nd2, hsub⟩ := edgesOK_charwise (BL := BL) hsort hm hα hmap hu
      have hk : ∀ w ∈ t.childPaths u, m.get (w.getLastD 0) = some (codeOf m w) := by
        intro w hw
        obtain ⟨c, rfl, hc, _⟩ := (Trie.mem_childPaths t u w).1 hw
        obtain ⟨k, hk⟩ := hmap _ hc c (by simp)
        unfold codeOf
        rw [List.getLastD_concat, hk]
        rfl
      have hec' := edgeCodes_eq_edgesOf m t u (codeOf m) hk
      have hed : edges = edgesOf (codeOf m) (t.childPaths u) := by
        rw [hec] at hec'
        cases hec'; rfl
      have hnd : ((t.childPaths u).map (codeOf m)).Nodup := by
        have hp := (edgesOf_perm (codeOf m) (t.childPaths u)).map (·.1)
        rw [← hed] at hp
        have := hp.nodup_iff.1 nd1
        simpa [List.map_map, Function.comp_def] using this
      have pf : PF BL lay (u :: rest) :=
        ⟨I.wf, I.bl, I.size, fun w hw => I.ixLt w (I.stackHas w hw)⟩
      obtain ⟨s, hs, hse⟩ := hnode u hu
      have hpos : 0 < lay.states.size := by
        have := I.ixLt [] I.hasRoot
        omega
      have hge : BL ≤ lay.states.size := by
        rw [I.size]
        have h1 := I.size
        have : 0 < lay.h.numBlocks := by
          rcases Nat.eq_zero_or_pos lay.h.numBlocks with h0 | h0
          · rw [h0] at h1; omega
          · exact h0
        exact Nat.le_mul_of_pos_left _ this
      have hz : ∀ e ∈ edgesOf (codeOf m) (t.childPaths u), lay.states.size ^^^ e.1 ≠ 0 := by
        intro e he
        rw [← hed] at he
        have := hclt e he
        exact LayC.xor_ne_zero (by omega)
      have hstep := step_sim_c m BL t ido hinj nfa u hu s hs hse (codeOf m) hk hnd b g sm lay S vac I.wf ll
        I.bl hle hz rest mapped
      rw [List.map_cons, loop0_succ, layoutLoop_cons]
      rcases layoutStep_progress hpow (by intro h; cases h) pf ll hec nd1 hclt with ⟨lay', es, vac', ll'⟩ | hsc
      · rw [es] at hstep ⊢
        cases hg : genStep nfa b g sm (ido u) (rest.map ido) mapped with
        | error e => rw [hg] at hstep; exact hstep.elim
        | ok r =>
          obtain ⟨b', g', sm', stk', mapped'⟩ := r
          rw [hg] at hstep
          obtain ⟨S', hstk⟩ := hstep
          simp only at hstk S' ⊢
          rw [hstk]
          exact ih fg' _ lay' (u :: seen) vac' b' g' sm' mapped' (LayC.layoutStep_inv hBL2 hα hm hsort I es) ll'
            (tt.step nd2 hsub) (by simp only [List.length_cons]; omega) (by omega)
            (layoutStep_bound_c hpos hle es) S'
      · rw [hsc] at hstep ⊢
        cases hg : genStep nfa b g sm (ido u) (rest.map ido) mapped with
        | error e => rw [hg] at hstep; exact hstep
        | ok r => rw [hg] at hstep; exact hstep.elim

/-! ### (5) Composition -/

theorem map_states_match (X : Except BuildErr LC.Builder) :
    (match X with
      | .error e => (.error e : Except BuildErr (Unit × LC.Builder))
      | .ok self => .ok ((), self)).map (fun p : Unit × LC.Builder => p.2.states)
      = X.map (fun b : LC.Builder => b.states) := by
  cases X <;> rfl

/-- MAIN THEOREM.  The char-wise `build_double_array` as translated from the Rust text computes the
table of the model's `buildLayout .charwise` (up to panic texts), for every `NfaBuilder` that represents
the model NFA (`NfaRep`; `FailNodes`: the model's fail targets are trie nodes), on a sorted trie all of
whose labels are mapped by the builder's code mapper (codes below the alphabet size and injective:
`LayC.MapperOk`, which Proofs/MapperFacts.lean proves of `Mapper.build P`), starting from an empty
builder with the configured number of free blocks. -/
theorem build_double_array_refines_charwise (cfg : Cfg) (mapper : Mapper) (t : Trie V) (nfa : Nfa V)
    (g : N.NfaBuilder V) (ido : List Nat → Nat) (R : NfaRep g t nfa ido) (hfn : FailNodes t nfa)
    (hsort : t.Sorted) (hm : LayC.MapperOk mapper)
    (hmap : ∀ u, t.hasNode u = true → ∀ c ∈ u, ∃ k, mapper.get c = some k) (hnfb : 1 ≤ cfg.nfb)
    (b : LC.Builder) (hb : b.states = #[]) (hn : b.num_free_blocks = cfg.nfb) (hmp : b.mapper = mapper) :
    norm ((DC.Builder.build_double_array b g).map (·.2.states))
      = norm (buildLayout .charwise cfg mapper t nfa) := by
  have hi := Tie.L.C.init_array_eq b hb
  rw [hn, hmp] at hi
  obtain ⟨⟨n, hpow⟩, hBL2, hα⟩ := LayC.blockLen_facts mapper.alphaSize
  have hblOf : blOf .charwise mapper = max 2 (Nat.nextPowerOfTwo mapper.alphaSize) := rfl
  unfold DC.Builder.build_double_array
  by_cases hcap : blOf .charwise mapper * cfg.nfb > u32Max
  · have hmd : Tie.L.initModel .charwise (max 2 (Nat.nextPowerOfTwo mapper.alphaSize)) cfg.nfb
        = .error .automatonScale := by
      unfold Tie.L.initModel
      rw [← hblOf, Helper.new_scale hcap]
    have hbl : buildLayout .charwise cfg mapper t nfa = .error .automatonScale := by
      rw [buildLayout_eq, Helper.new_scale hcap]
    rw [hmd] at hi
    rcases norm_cases _ _ _ hi with ⟨a, _, x2⟩ | ⟨e1', e2', x1, x2, hee⟩
    · cases x2
    · rw [x1, hbl]
      cases x2
      exact hee _
  · obtain ⟨h0, h1, h2, h3, e0, e1, e2, e3, _, ll3⟩ :=
      Helper.init_ll (bl := blOf .charwise mapper) (nfb := cfg.nfb) hBL2 hnfb (by omega)
    have e2' : h1.useIndex rootIdx = .ok h2 := e2
    have e3' : h2.useIndex deadIdx = .ok h3 := e3
    have hmd : Tie.L.initModel .charwise (max 2 (Nat.nextPowerOfTwo mapper.alphaSize)) cfg.nfb
        = .ok (Array.replicate (blOf .charwise mapper) stDefaultC, h3) := by
      unfold Tie.L.initModel
      rw [← hblOf, e0]
      simp only
      rw [e1]
      simp only
      rw [e2']
      simp only
      rw [e3']
      rfl
    have heq : buildLayout .charwise cfg mapper t nfa =
        afterLoop .charwise nfa t (layoutLoop .charwise mapper t (t.size + 1) [[]]
          (initLay .charwise (blOf .charwise mapper) h3)) := by
      rw [buildLayout_eq, e0]
      simp only
      rw [e1]
      simp only
      rw [e2']
      simp only
      rw [e3']
    rw [hmd] at hi
    rcases norm_cases _ _ _ hi with ⟨⟨gh, b1⟩, x1, x2⟩ | ⟨e1', e2', x1, x2, hee⟩
    · simp only [Except.ok.injEq, Prod.mk.injEq] at x2
      obtain ⟨xs, xh⟩ := x2
      have hfields : Wf gh ∧ b1.mapper = mapper ∧ b1.block_len = blOf .charwise mapper := by
        rw [Tie.L.C.init_array_unfold] at x1
        cases hgi : Tie.L.genInit (max (Nat.nextPowerOfTwo b.mapper.alphaSize) 2) b.num_free_blocks with
        | error e => rw [hgi] at x1; cases x1
        | ok gh' =>
          rw [hgi] at x1
          simp only [Except.map, Except.ok.injEq, Prod.mk.injEq] at x1
          rw [← x1.1, ← x1.2]
          refine ⟨genInit_wf _ _ _ hgi, hmp, ?_⟩
          show max (Nat.nextPowerOfTwo b.mapper.alphaSize) 2 = _
          rw [hmp, hblOf, Nat.max_comm]
      obtain ⟨wfg, hmp1, hblk1⟩ := hfields
      rw [x1, heq]
      simp only
      -- state_id_map
      have hgpos : 0 < g.states.size := by rw [R.size]; omega
      have hset : Rs.indexSet (Array.replicate g.states.size Gen.deadStateIdx) Gen.rootStateId Gen.rootStateIdx
          = .ok ((Array.replicate g.states.size Gen.deadStateIdx).setIfInBounds Gen.rootStateId Gen.rootStateIdx) := by
        simp [Rs.indexSet, Gen.rootStateId, hgpos]
      rw [hset]
      simp only
      have S0 : Sim mapper (blOf .charwise mapper) t ido b1 gh
          ((Array.replicate g.states.size Gen.deadStateIdx).setIfInBounds Gen.rootStateId Gen.rootStateIdx)
          (initLay .charwise (blOf .charwise mapper) h3) := by
        refine ⟨xs.symm, xh.symm, wfg, ?_, hmp1, hblk1⟩
        intro u hu
        obtain ⟨s, hs, _⟩ := R.node u hu
        have hlt := lt_of_getElem? _ _ _ hs
        by_cases hu0 : u = []
        · subst hu0
          rw [R.root]
          simp [initLay, Array.getElem?_setIfInBounds]
          exact ⟨hgpos, rfl⟩
        · have hne : ido u ≠ Gen.rootStateId := by
            intro h
            exact hu0 (R.inj u [] hu (Trie.hasNode_nil t) (h.trans R.root.symm))
          have hb2 : (([] : List Nat) == u) = false := by
            cases u with
            | nil => exact absurd rfl hu0
            | cons a r => rfl
          rw [Array.getElem?_setIfInBounds_ne (Ne.symm hne)]
          simp [initLay, Std.HashMap.getD_insert, hb2, hlt, deadIdx]
      have I0 : LayC.Inv mapper t (blOf .charwise mapper) (initLay .charwise (blOf .charwise mapper) h3) [[]] :=
        LayC.inv_init e0 e1 e2 e3
      have hnode : ∀ u, t.hasNode u = true → ∃ s, g.states[ido u]? = some s ∧
          s.edges = (LayB.edgesB t u).map (fun e => (e.1, ido e.2)) := by
        intro u hu
        obtain ⟨s, h1, h2, _⟩ := R.node u hu
        exact ⟨s, h1, h2⟩
      have hsz0 : (initLay .charwise (blOf .charwise mapper) h3).states.size ≤ 4294967295 := by
        show (Array.replicate (blOf .charwise mapper) (stDefault .charwise)).size ≤ 4294967295
        rw [Array.size_replicate]
        have h1 : blOf .charwise mapper * 1 ≤ blOf .charwise mapper * cfg.nfb := Nat.mul_le_mul_left _ hnfb
        unfold u32Max at hcap
        omega
      have L := loop_sim_c mapper (blOf .charwise mapper) n hpow hBL2 hα hm t ido g R.inj hnode hsort hmap
        (t.size + 1) (g.states.size + 1) [[]]
        (initLay .charwise (blOf .charwise mapper) h3) [] _ b1 gh _ [] I0 ll3 (T.init t) (by simp)
        (by rw [R.size]; omega) hsz0 S0
      simp only [List.map_cons, List.map_nil, R.root] at L
      generalize DC.Builder.build_double_array.loop0 g (g.states.size + 1) b1 gh _ [Gen.rootStateId] [] = X at L ⊢
      generalize layoutLoop .charwise mapper t (t.size + 1) [[]] (initLay .charwise (blOf .charwise mapper) h3) = Y at L ⊢
      cases X with
      | error ex =>
        cases Y with
        | error ey => exact L _
        | ok lay1 => exact L.elim
      | ok r =>
        cases Y with
        | error ey => exact L.elim
        | ok lay1 =>
          obtain ⟨b2, gh2, sm2, stk2, mapped2⟩ := r
          obtain ⟨S2, J2, _⟩ := L
          simp only at S2 ⊢
          have L2 := loop2_sim_c mapper (blOf .charwise mapper) t nfa g ido R hfn hsort b2 sm2 lay1 S2.states S2.map J2
          unfold afterLoop
          simp only
          generalize DC.Builder.build_double_array.loop3 sm2 (Rs.enumerateA g.states) b2 = X2 at L2 ⊢
          generalize setFailOut .charwise nfa (t.paths []) lay1 = Y2 at L2 ⊢
          cases X2 with
          | error ex =>
            cases Y2 with
            | error ey => exact L2 _
            | ok lay2 => exact L2.elim
          | ok b3 =>
            cases Y2 with
            | error ey => exact L2.elim
            | ok lay2 =>
              have hst : b3.states = lay2.states := L2
              simp only [Except.map, hst]
    · cases x2

/-
TODO (unproved): what remains to connect `build_double_array_refines_charwise` to the rest of the
pipeline.  Everything above is proved; nothing below is used.

 (a) The char-wise end-to-end composition (the analogue of Proofs/TieP.lean): `NfaRep g t nfa ido` for
     the `NfaBuilder` produced by the translated insertion / fail / output passes run on the code points
     of the patterns, `FailNodes t (buildNfa t leftmost)`, and `hmap` (every label of `acc.trie` is a
     label of some pattern, hence mapped by `Mapper.build P`: `mapper_maps_labels`).
 (b) The translated construction of the mapper (`CodeMapper::new` and the frequency loop of
     `build_sparse_nfa`) = `Mapper.build P`; here `b.mapper = mapper` is a hypothesis.
-/

end Daac.Tie.DC

#print axioms Daac.Tie.DC.sortByFst_map_eq
#print axioms Daac.Tie.DC.loop1_sim_c
#print axioms Daac.Tie.DC.step_sim_c
#print axioms Daac.Tie.DC.loop_sim_c
#print axioms Daac.Tie.DC.loop2_sim_c
#print axioms Daac.Tie.DC.build_double_array_refines_charwise

/-
Counting facts under `Tie.N.Rep`: the nodes of the represented trie are injectively numbered below
`st.size`, hence any duplicate-free list of nodes (the prefixes of a path, the BFS queue plus the
root) is no longer than `st.size`.
-/
import Daac.Proofs.TieFBase
namespace Daac.Tie.F
open Daac Daac.Gen Daac.Gen.N Daac.Tie.N
variable {V : Type}

/-- Pigeonhole on naturals. -/
theorem nodup_bound : ∀ (n : Nat) (l : List Nat), l.Nodup → (∀ x ∈ l, x < n) → l.length ≤ n
  | 0, l, _, hb => by
    cases l with
    | nil => simp
    | cons a r => exact absurd (hb a (by simp)) (by omega)
  | n + 1, l, hnd, hb => by
    have hnd' : (l.erase n).Nodup := hnd.erase n
    have hb' : ∀ x ∈ l.erase n, x < n := by
      intro x hx
      have h1 := (hnd.mem_erase_iff).mp hx
      have h2 := hb x h1.2
      have h3 := h1.1
      omega
    have ih := nodup_bound n (l.erase n) hnd' hb'
    by_cases hm : n ∈ l
    · rw [List.length_erase_of_mem hm] at ih
      omega
    · rw [List.erase_of_not_mem hm] at ih
      omega

section root
variable {st : Tie.N.St V} {pth : Pth} {t : Trie V}

theorem paths_ids (hrep : Rep st pth t 0 []) : (us : List (List Nat)) → us.Nodup →
    (∀ u ∈ us, t.hasNode u = true) →
    ∃ ids : List Nat, ids.length = us.length ∧ ids.Nodup ∧
      (∀ i ∈ ids, i < st.size ∧ ∃ u ∈ us, idAt st 0 u = some i)
  | [], _, _ => ⟨[], rfl, List.nodup_nil, by simp⟩
  | u :: us, hnd, hn => by
    rw [List.nodup_cons] at hnd
    obtain ⟨ids, h1, h2, h3⟩ := paths_ids hrep us hnd.2 (fun w hw => hn w (List.mem_cons_of_mem _ hw))
    have hu := hn u (by simp)
    unfold Trie.hasNode at hu
    cases hw : t.walk u with
    | none => rw [hw] at hu; simp at hu
    | some n =>
      obtain ⟨i, hi, _⟩ := idAt_some_of_walk hrep hw
      refine ⟨i :: ids, by simp [h1], ?_, ?_⟩
      · rw [List.nodup_cons]
        refine ⟨fun hmem => ?_, h2⟩
        obtain ⟨_, w, hw1, hw2⟩ := h3 i hmem
        have := idAt_inj hrep hi hw2
        subst this
        exact hnd.1 hw1
      · intro j hj
        rcases List.mem_cons.mp hj with rfl | hj
        · exact ⟨idAt_lt hrep hi, u, by simp, hi⟩
        · obtain ⟨a, w, b, c⟩ := h3 j hj
          exact ⟨a, w, List.mem_cons_of_mem _ b, c⟩

/-- A duplicate-free list of nodes is no longer than the state array. -/
theorem paths_le_size (hrep : Rep st pth t 0 []) (us : List (List Nat)) (hnd : us.Nodup)
    (hn : ∀ u ∈ us, t.hasNode u = true) : us.length ≤ st.size := by
  obtain ⟨ids, h1, h2, h3⟩ := paths_ids hrep us hnd hn
  rw [← h1]
  exact nodup_bound st.size ids h2 (fun i hi => (h3 i hi).1)

/-- The depth of a node is below the number of states. -/
theorem depth_lt_size (hrep : Rep st pth t 0 []) {u : List Nat} {i : Nat} (hi : idAt st 0 u = some i) :
    u.length < st.size := by
  obtain ⟨n, hw, _⟩ := walk_some_of_idAt hrep hi
  have hu : t.hasNode u = true := by simp [Trie.hasNode, hw]
  have := paths_le_size hrep ((List.range (u.length + 1)).map (fun k => u.take k)) ?_ ?_
  · simp only [List.length_map, List.length_range] at this
    omega
  · unfold List.Nodup
    rw [List.pairwise_map]
    refine List.Pairwise.imp_of_mem ?_ (List.pairwise_lt_range (n := u.length + 1))
    intro a b ha hb hlt hab
    have h := congrArg List.length hab
    simp only [List.length_take] at h
    have ha := List.mem_range.mp ha
    have hb := List.mem_range.mp hb
    omega
  · intro w hw
    obtain ⟨k, _, rfl⟩ := List.mem_map.mp hw
    exact Trie.hasNode_of_prefix t (List.take_prefix k u) hu

end root

mutual
theorem rep_sorted {st : Tie.N.St V} {pth : Pth} : (t : Trie V) → (id : Nat) → (pre : List Nat) →
    Rep st pth t id pre → t.Sorted
  | .node out kids, id, pre, h => by
    unfold Rep at h
    obtain ⟨s, _, _, _, h4⟩ := h
    unfold Trie.Sorted
    exact (repK_sorted kids pre 0 s.edges h4).1
theorem repK_sorted {st : Tie.N.St V} {pth : Pth} : (ks : Kids V) → (pre : List Nat) → (lo : Nat) →
    (es : List (Nat × Nat)) → RepK st pth ks pre lo es → ks.Sorted ∧ ∀ l ∈ ks.labels, lo ≤ l
  | .nil, pre, lo, es, h => by
    simp [Kids.Sorted, Kids.labels]
  | .cons l t r, pre, lo, es, h => by
    unfold RepK at h
    obtain ⟨cid, es', _, h2, h3, h4⟩ := h
    have ih := repK_sorted r pre (l + 1) es' h4
    refine ⟨?_, ?_⟩
    · unfold Kids.Sorted
      exact ⟨rep_sorted t cid _ h3, ih.1, fun l' hl' => by have := ih.2 l' hl'; omega⟩
    · intro x hx
      simp only [Kids.labels, List.mem_cons] at hx
      rcases hx with rfl | hx
      · exact h2
      · have := ih.2 x hx; omega
end

/-- The BFS queue (all non-root nodes) is shorter than the state array. -/
theorem queue_lt_size {st : Tie.N.St V} {pth : Pth} {t : Trie V} (hrep : Rep st pth t 0 []) :
    t.queue.length < st.size := by
  have hs : t.Sorted := rep_sorted t 0 [] hrep
  have := paths_le_size hrep ([] :: t.queue) ?_ ?_
  · simp only [List.length_cons] at this
    omega
  · rw [List.nodup_cons]
    exact ⟨fun h => ((Trie.mem_queue t []).mp h).2 rfl, Trie.nodup_queue t hs⟩
  · intro u hu
    rcases List.mem_cons.mp hu with rfl | hu
    · exact Trie.hasNode_nil t
    · exact ((Trie.mem_queue t u).mp hu).1

end Daac.Tie.F

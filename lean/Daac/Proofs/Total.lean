/-
Panic freedom (totality) of the layout pass `buildLayout` and of the whole pipeline `buildDA`
(Model/Build.lean): construction returns `Ok` or one of the documented error kinds, never
`BuildErr.panic` (a Rust `assert!`, `unwrap`, out-of-range index or `debug_assert!`).

A thin "progress" layer on top of the partial-correctness invariants of LayoutB / LayoutC and the
vacant-list invariant of HelperLL: (1) window arithmetic, (2) queries and `findBase`,
(3) `placeChildren`, (4) the sanitiser and `extendArray`, (5) one DFS step, (6) the DFS bookkeeping
and the fuel bound, (7) `setFailOut` / `sanitiseBlocks`, (8) assembly.
-/
import Daac.Proofs.LayoutB
import Daac.Proofs.LayoutC
import Daac.Proofs.HelperLL
import Daac.Proofs.MapperFacts
import Daac.Proofs.BuildCor
namespace Daac
variable {V : Type}

/-! ## 1. Blocks of length `2 ^ n` are closed under XOR with a label code -/

theorem xor_div_pow (i k n : Nat) (hk : k < 2 ^ n) : (i ^^^ k) / 2 ^ n = i / 2 ^ n := by
  have : (i ^^^ k) >>> n = (i >>> n) ^^^ (k >>> n) := Nat.shiftRight_xor_distrib
  simp only [Nat.shiftRight_eq_div_pow] at this
  rw [Nat.div_eq_of_lt hk, Nat.xor_zero] at this
  exact this

theorem active_iff_div_pow {h : Helper} {n : Nat} (hbl : h.blockLen = 2 ^ n) (j : Nat) :
    h.Active j ↔ h.activeStart ≤ j / 2 ^ n ∧ j / 2 ^ n < h.numBlocks := by
  unfold Helper.Active
  rw [hbl, Nat.le_div_iff_mul_le (Nat.two_pow_pos n), Nat.div_lt_iff_lt_mul (Nat.two_pow_pos n)]

theorem active_xor {h : Helper} {n : Nat} (hbl : h.blockLen = 2 ^ n) (i : Nat) {k : Nat}
    (hk : k < 2 ^ n) : h.Active (i ^^^ k) ↔ h.Active i := by
  rw [active_iff_div_pow hbl, active_iff_div_pow hbl, xor_div_pow i k n hk]

theorem div_eq_bounds {x b q : Nat} (hb : 0 < b) (h : x / b = q) : q * b ≤ x ∧ x < q * b + b := by
  have h1 := Nat.div_add_mod x b
  have h2 := Nat.mod_lt x hb
  rw [h, Nat.mul_comm] at h1
  omega

theorem div_of_bounds {x b q : Nat} (hb : 0 < b) (lo : q * b ≤ x) (hi : x < q * b + b) :
    x / b = q := by
  have h1 : q ≤ x / b := (Nat.le_div_iff_mul_le hb).2 lo
  have h2 : x / b < q + 1 := (Nat.div_lt_iff_lt_mul hb).2 (by rw [Nat.add_mul, Nat.one_mul]; exact hi)
  omega

theorem xor_cancel_l {a k k' : Nat} (h : a ^^^ k = a ^^^ k') : k = k' := LayC.xor_left_cancel h

theorem setSt_lt {s : Array St} {i : Nat} (f : St → St) (h : i < s.size) :
    setSt s i f = .ok (s.modify i f) := by
  unfold setSt; rw [if_pos h]

/-! ## 2. Queries, `baseOk`, `findBase` -/

theorem allUnused_progress {h : Helper} {b : Nat} (codes : List Nat)
    (ha : ∀ c ∈ codes, h.Active (b ^^^ c)) : ∃ r, allUnused h b codes = .ok r := by
  induction codes with
  | nil => exact ⟨true, rfl⟩
  | cons c cs ih =>
    unfold allUnused
    rw [Helper.isUsedIndex_ok.2 ⟨ha c List.mem_cons_self, rfl⟩]
    cases h.usedI (b ^^^ c) with
    | true => exact ⟨false, rfl⟩
    | false => exact ih (fun c' hc' => ha c' (List.mem_cons_of_mem _ hc'))

theorem allUnused_true {h : Helper} {b : Nat} (codes : List Nat)
    (e : allUnused h b codes = .ok true) :
    ∀ c ∈ codes, h.Active (b ^^^ c) ∧ h.usedI (b ^^^ c) = false := by
  induction codes with
  | nil => intro c hc; cases hc
  | cons c cs ih =>
    unfold allUnused at e
    split at e
    · cases e
    · cases e
    · rename_i hq
      obtain ⟨a, hu⟩ := Helper.isUsedIndex_ok.1 hq
      intro c' hc'
      rcases List.mem_cons.1 hc' with rfl | hc'
      · exact ⟨a, hu.symm⟩
      · exact ih e c' hc'

theorem baseOk_progress (v : Variant) {h : Helper} {b : Nat} {codes : List Nat} (hb : h.Active b)
    (ha : ∀ c ∈ codes, h.Active (b ^^^ c)) : ∃ r, baseOk v h b codes = .ok r := by
  obtain ⟨r, er⟩ := allUnused_progress codes ha
  unfold baseOk
  cases v with
  | bytewise =>
    simp only
    rw [Helper.isUsedBase_ok.2 ⟨hb, rfl⟩]
    cases h.usedB b with
    | true => exact ⟨false, rfl⟩
    | false => simp only [er]; exact ⟨_, rfl⟩
  | charwise =>
    simp only [er]; exact ⟨_, rfl⟩

theorem baseOk_true_slots {v : Variant} {h : Helper} {b : Nat} {codes : List Nat}
    (e : baseOk v h b codes = .ok true) :
    ∀ c ∈ codes, h.Active (b ^^^ c) ∧ h.usedI (b ^^^ c) = false := by
  unfold baseOk at e
  cases v with
  | bytewise =>
    simp only at e
    split at e
    · cases e
    · cases e
    · split at e
      · cases e
      · rename_i r hr
        simp only [Except.ok.injEq, Bool.and_eq_true] at e
        rw [e.1] at hr
        exact allUnused_true codes hr
  | charwise =>
    simp only at e
    split at e
    · cases e
    · rename_i r hr
      simp only [Except.ok.injEq, Bool.and_eq_true] at e
      rw [e.1] at hr
      exact allUnused_true codes hr

theorem findBaseIn_progress (v : Variant) {h : Helper} {c0 : Nat} {codes : List Nat} (l : List Nat)
    (ha : ∀ i ∈ l, h.Active (i ^^^ c0) ∧ ∀ c ∈ codes, h.Active ((i ^^^ c0) ^^^ c)) :
    ∃ r, findBaseIn v h c0 codes l = .ok r := by
  induction l with
  | nil => exact ⟨none, rfl⟩
  | cons i r ih =>
    obtain ⟨hb, hs⟩ := ha i List.mem_cons_self
    obtain ⟨q, eq⟩ := baseOk_progress v hb hs
    unfold findBaseIn
    rw [eq]
    cases q with
    | true => exact ⟨_, rfl⟩
    | false => exact ih (fun j hj => ha j (List.mem_cons_of_mem _ hj))

theorem findBaseIn_some {v : Variant} {h : Helper} {c0 : Nat} {codes : List Nat} (l : List Nat)
    {b : Nat} (e : findBaseIn v h c0 codes l = .ok (some b)) :
    baseOk v h b codes = .ok true ∧ ∃ i ∈ l, b = i ^^^ c0 := by
  induction l with
  | nil => unfold findBaseIn at e; cases e
  | cons i r ih =>
    unfold findBaseIn at e
    split at e
    · cases e
    · rename_i hok
      simp only [Except.ok.injEq, Option.some.injEq] at e; subst e
      exact ⟨hok, i, List.mem_cons_self, rfl⟩
    · obtain ⟨h1, j, hj, h2⟩ := ih e
      exact ⟨h1, j, List.mem_cons_of_mem _ hj, h2⟩

/-- The BASE the fallback of `find_base` returns. -/
def fallbackBase (v : Variant) (lay : Lay) (codes : List Nat) : Nat :=
  match v with
  | .bytewise => lay.states.size
  | .charwise => lay.states.size ^^^ codes.headD 0

theorem findBase_progress (v : Variant) {lay : Lay} {vac codes : List Nat} {n : Nat}
    (wf : lay.h.WF) (ll : lay.h.LL vac) (hbl : lay.h.blockLen = 2 ^ n)
    (hc : ∀ c ∈ codes, c < 2 ^ n) (hc0 : codes.headD 0 < 2 ^ n) :
    ∃ base, findBase v lay codes = .ok base ∧
      ((baseOk v lay.h base codes = .ok true ∧ ∃ i ∈ vac, base = i ^^^ codes.headD 0) ∨
        base = fallbackBase v lay codes) := by
  have hA : ∀ i ∈ vac, lay.h.Active (i ^^^ codes.headD 0) ∧
      ∀ c ∈ codes, lay.h.Active ((i ^^^ codes.headD 0) ^^^ c) := by
    intro i hi
    have a0 : lay.h.Active (i ^^^ codes.headD 0) := (active_xor hbl i hc0).2 (ll.active hi)
    exact ⟨a0, fun c hcc => (active_xor hbl _ (hc c hcc)).2 a0⟩
  obtain ⟨r, er⟩ := findBaseIn_progress v (c0 := codes.headD 0) (codes := codes) vac hA
  unfold findBase
  simp only
  rw [Helper.vacant_ll wf ll]
  simp only [er]
  cases r with
  | some b => exact ⟨b, rfl, Or.inl (findBaseIn_some vac er)⟩
  | none =>
    cases v with
    | bytewise => exact ⟨_, rfl, Or.inr rfl⟩
    | charwise => exact ⟨_, rfl, Or.inr rfl⟩

/-! ## 3. `placeChildren` -/

/-- The CHECK value `placeChildren` writes. -/
def chkOf (v : Variant) (c sidx : Nat) : Nat :=
  match v with
  | .bytewise => c
  | .charwise => sidx

theorem placeChildren_cons (v : Variant) (sidx base c : Nat) (child : List Nat)
    (rest : List (Nat × List Nat)) (lay : Lay) :
    placeChildren v sidx base ((c, child) :: rest) lay =
      match lay.h.useIndex (base ^^^ c) with
      | .error e => .error e
      | .ok h' =>
        match setSt lay.states (base ^^^ c) (fun st => { st with check := chkOf v c sidx }) with
        | .error e => .error e
        | .ok states' =>
          placeChildren v sidx base rest ⟨states', h', lay.idx.insert child (base ^^^ c)⟩ := by
  cases v <;> rfl

theorem placeChildren_progress (v : Variant) (sidx base : Nat) :
    ∀ (edges : List (Nat × List Nat)) (lay : Lay) (vac : List Nat), lay.h.WF → lay.h.LL vac →
      (edges.map (·.1)).Nodup → (∀ e ∈ edges, base ^^^ e.1 ∈ vac) →
      (∀ e ∈ edges, base ^^^ e.1 < lay.states.size) →
      ∃ lay2, placeChildren v sidx base edges lay = .ok lay2 ∧ lay2.h.WF ∧
        lay2.states.size = lay.states.size ∧ lay2.h.blockLen = lay.h.blockLen ∧
        lay2.h.nfb = lay.h.nfb ∧ lay2.h.numBlocks = lay.h.numBlocks ∧ ∃ vac', lay2.h.LL vac' := by
  intro edges
  induction edges with
  | nil =>
    intro lay vac wf ll _ _ _
    exact ⟨lay, rfl, wf, rfl, rfl, rfl, rfl, vac, ll⟩
  | cons e0 rest ih =>
    intro lay vac wf ll nd hin hlt
    obtain ⟨c, child⟩ := e0
    simp only [List.map_cons, List.nodup_cons] at nd
    obtain ⟨h', eu, ll'⟩ := Helper.useIndex_ll wf ll (hin (c, child) List.mem_cons_self)
    obtain ⟨_, _, _, _, _, b1, b2, b3, wf'⟩ := Helper.useIndex_ok wf eu
    have es := setSt_lt (s := lay.states) (i := base ^^^ c)
      (fun st => { st with check := chkOf v c sidx }) (hlt (c, child) List.mem_cons_self)
    obtain ⟨lay2, e2, wf2, sz2, c1, c2, c3, vac', ll2⟩ :=
      ih ⟨lay.states.modify (base ^^^ c) (fun st => { st with check := chkOf v c sidx }),
          h', lay.idx.insert child (base ^^^ c)⟩ (vac.erase (base ^^^ c)) wf' ll' nd.2
        (by
          intro e he
          rw [List.mem_erase_of_ne]
          · exact hin e (List.mem_cons_of_mem _ he)
          · intro heq
            have := xor_cancel_l heq
            exact nd.1 (this ▸ List.mem_map.2 ⟨e, he, rfl⟩))
        (by
          intro e he
          simp only [Array.size_modify]
          exact hlt e (List.mem_cons_of_mem _ he))
    refine ⟨lay2, ?_, wf2, ?_, c1.trans b1, c2.trans b2, c3.trans b3, vac', ll2⟩
    · rw [placeChildren_cons, eu]
      simp only
      rw [es]
      exact e2
    · rw [sz2]; simp

/-! ## 4. The sanitiser and `extendArray` -/

theorem sanitiseLoop_progress (h : Helper) (ub : Nat) : ∀ (n c : Nat) (s : Array St),
    (∀ c', c ≤ c' → c' < c + n → h.Active (ub ^^^ c') ∧ ub ^^^ c' < s.size) →
    ∃ s', sanitiseLoop h ub n c s = .ok s' ∧ s'.size = s.size := by
  intro n
  induction n with
  | zero => intro c s _; exact ⟨s, rfl, rfl⟩
  | succ n ih =>
    intro c s hA
    obtain ⟨a, lt⟩ := hA c (Nat.le_refl _) (by omega)
    have hrec : ∀ s1 : Array St, s1.size = s.size →
        ∃ s', sanitiseLoop h ub n (c + 1) s1 = .ok s' ∧ s'.size = s.size := by
      intro s1 hs1
      obtain ⟨s', e', sz'⟩ := ih (c + 1) s1 (fun c' lo hi => by
        rw [hs1]; exact hA c' (by omega) (by omega))
      exact ⟨s', e', sz'.trans hs1⟩
    have es := setSt_lt (s := s) (i := ub ^^^ c) (fun st => { st with check := c }) lt
    unfold sanitiseLoop
    simp only [Helper.isUsedIndex_ok.2 ⟨a, rfl⟩]
    by_cases h01 : ub ^^^ c = rootIdx ∨ ub ^^^ c = deadIdx
    · simp only [h01, if_true, es]
      exact hrec _ (by simp)
    · simp only [h01, if_false]
      cases h.usedI (ub ^^^ c) with
      | true => exact hrec s rfl
      | false =>
        simp only [Bool.not_false, es]
        exact hrec _ (by simp)

theorem two56 : (256 : Nat) = 2 ^ 8 := by decide

theorem removeInvalidChecks_progress {s : Array St} {h : Helper} {b : Nat}
    (hbl : h.blockLen = 256) (hlo : h.activeStart ≤ b) (hhi : b < h.numBlocks)
    (hsz : s.size = h.numBlocks * 256) :
    ∃ s', removeInvalidChecks s h b = .ok s' ∧ s'.size = s.size := by
  have hbl8 : h.blockLen = 2 ^ 8 := hbl.trans two56
  have hblock : ∀ j, j / 256 = b → h.Active j ∧ j < s.size := by
    intro j hj
    have a : h.Active j := by
      rw [active_iff_div_pow hbl8, ← two56, hj]; exact ⟨hlo, hhi⟩
    refine ⟨a, ?_⟩
    have := a.2
    rw [hbl] at this; omega
  obtain ⟨r, er⟩ := Helper.unusedBaseInBlock_active (h := h) (b := b) (by
    intro j lo hi
    rw [hbl] at lo hi
    exact (hblock j (by omega)).1)
  unfold removeInvalidChecks
  rw [er]
  cases r with
  | none => exact ⟨s, rfl, rfl⟩
  | some ub =>
    obtain ⟨lo, hi, _⟩ := Helper.unusedBaseInBlock_ok er
    rw [hbl] at lo hi
    have hub : ub / 256 = b := by omega
    apply sanitiseLoop_progress
    intro c _ hc
    apply hblock
    have := xor_div_pow ub c 8 (by omega)
    rw [← two56] at this
    omega

/-- The sanitising step of `extend_array`. -/
def sanitisedOf (v : Variant) (lay : Lay) : Except BuildErr (Array St) :=
  match v, lay.h.droppedBlock with
  | .bytewise, some cb => removeInvalidChecks lay.states lay.h cb
  | _, _ => .ok lay.states

theorem extendArray_eq (v : Variant) (lay : Lay) :
    extendArray v lay =
      if lay.states.size > u32Max - lay.h.blockLen then .error .automatonScale else
      match sanitisedOf v lay with
      | .error e => .error e
      | .ok states =>
        match lay.h.pushBlock with
        | .error e => .error e
        | .ok h' =>
          .ok { lay with states := states ++ Array.replicate lay.h.blockLen (stDefault v),
                         h := h' } := rfl

theorem extendArray_progress (v : Variant) {lay : Lay} {vac : List Nat} (wf : lay.h.WF)
    (ll : lay.h.LL vac) (hvb : v = .bytewise → lay.h.blockLen = 256)
    (hsz : lay.states.size = lay.h.numBlocks * lay.h.blockLen) :
    (∃ lay1, extendArray v lay = .ok lay1 ∧ lay1.idx = lay.idx ∧
      lay1.states.size = lay.states.size + lay.h.blockLen ∧ lay1.h.WF ∧
      lay1.h.numBlocks = lay.h.numBlocks + 1 ∧ lay1.h.blockLen = lay.h.blockLen ∧
      lay1.h.nfb = lay.h.nfb ∧
      lay1.h.LL (vac.filter (fun j => decide (lay1.h.activeStart * lay.h.blockLen ≤ j)) ++
        List.range' (lay.h.numBlocks * lay.h.blockLen) lay.h.blockLen)) ∨
    extendArray v lay = .error .automatonScale := by
  by_cases hbig : lay.states.size > u32Max - lay.h.blockLen
  · right
    rw [extendArray_eq, if_pos hbig]
  · left
    obtain ⟨h', ep, ll'⟩ := Helper.pushBlock_ll wf ll (by
      unfold Helper.numElements; rw [← hsz]; omega)
    obtain ⟨nb, bl, nfb, wf', _, _⟩ := Helper.pushBlock_ok wf ep
    have hsan : ∃ s', sanitisedOf v lay = .ok s' ∧ s'.size = lay.states.size := by
      unfold sanitisedOf
      cases v with
      | charwise => exact ⟨_, rfl, rfl⟩
      | bytewise =>
        have hbl := hvb rfl
        cases hd : lay.h.droppedBlock with
        | none => exact ⟨_, rfl, rfl⟩
        | some cb =>
          simp only
          unfold Helper.droppedBlock at hd
          split at hd
          · rename_i hfull
            simp only [Option.some.injEq] at hd
            subst hd
            have hnfb : lay.h.nfb ≤ lay.h.numBlocks := by
              rw [wf.cap_eq, Helper.numElements, Nat.mul_comm lay.h.numBlocks] at hfull
              exact Nat.le_of_mul_le_mul_left hfull wf.blockLen_pos
            have := wf.nfb_pos
            apply removeInvalidChecks_progress hbl (Nat.le_refl _)
            · unfold Helper.activeStart; omega
            · rw [hsz, hbl]
          · cases hd
    obtain ⟨s', es, sz'⟩ := hsan
    refine ⟨{ lay with states := s' ++ Array.replicate lay.h.blockLen (stDefault v), h := h' },
      ?_, rfl, ?_, wf', nb, bl, nfb, ll'⟩
    · rw [extendArray_eq, if_neg hbig, es]
      simp only [ep]
    · simp [sz']

/-! ## 5. One DFS step -/

/-- What the progress argument needs from the variant-specific invariants. -/
structure PF (BL : Nat) (lay : Lay) (stack : List (List Nat)) : Prop where
  wf : lay.h.WF
  bl : lay.h.blockLen = BL
  size : lay.states.size = lay.h.numBlocks * BL
  stackLt : ∀ u ∈ stack, lay.idx.getD u deadIdx < lay.states.size

/-- The part of `layoutStep` after the array has been extended. -/
def stepTail (v : Variant) (sidx base : Nat) (edges : List (Nat × List Nat))
    (stack : List (List Nat)) (lay1 : Lay) : Except BuildErr (List (List Nat) × Lay) :=
  match placeChildren v sidx base edges lay1 with
  | .error e => .error e
  | .ok lay2 =>
    match setSt lay2.states sidx (fun st => { st with base := base }) with
    | .error e => .error e
    | .ok states' =>
      let helper : Except BuildErr Helper :=
        match v with
        | .bytewise => lay2.h.useBase base
        | .charwise => .ok lay2.h
      match helper with
      | .error e => .error e
      | .ok h' => .ok ((edges.map (·.2)).reverse ++ stack, { lay2 with states := states', h := h' })

theorem layoutStep_nil {v : Variant} {m : Mapper} {t : Trie V} {u : List Nat}
    (stack : List (List Nat)) (lay : Lay) (hec : edgeCodes v m t u = .ok []) :
    layoutStep v m t u stack lay = .ok (stack, lay) := by
  unfold layoutStep; rw [hec]

theorem layoutStep_cons {v : Variant} {m : Mapper} {t : Trie V} {u : List Nat}
    (stack : List (List Nat)) (lay : Lay) {e0 : Nat × List Nat} {rest : List (Nat × List Nat)}
    (hec : edgeCodes v m t u = .ok (e0 :: rest)) :
    layoutStep v m t u stack lay =
      match findBase v lay ((e0 :: rest).map (·.1)) with
      | .error e => .error e
      | .ok base =>
        match (if lay.states.size ≤ base then extendArray v lay else .ok lay) with
        | .error e => .error e
        | .ok lay1 => stepTail v (lay.idx.getD u deadIdx) base (e0 :: rest) stack lay1 := by
  unfold layoutStep; rw [hec]; rfl

theorem stepTail_progress (v : Variant) {sidx base : Nat} {edges : List (Nat × List Nat)}
    (stack : List (List Nat)) {lay1 : Lay} {vac1 : List Nat} (wf : lay1.h.WF) (ll : lay1.h.LL vac1)
    (nd : (edges.map (·.1)).Nodup) (hin : ∀ e ∈ edges, base ^^^ e.1 ∈ vac1)
    (hlt : ∀ e ∈ edges, base ^^^ e.1 < lay1.states.size) (hs : sidx < lay1.states.size)
    (hb : v = .bytewise → lay1.h.Active base) :
    ∃ lay', stepTail v sidx base edges stack lay1 = .ok ((edges.map (·.2)).reverse ++ stack, lay') ∧
      ∃ vac', lay'.h.LL vac' := by
  obtain ⟨lay2, e2, wf2, sz2, c1, c2, c3, vac2, ll2⟩ :=
    placeChildren_progress v sidx base edges lay1 vac1 wf ll nd hin hlt
  have es := setSt_lt (s := lay2.states) (i := sidx) (fun st => { st with base := base })
    (by rw [sz2]; exact hs)
  unfold stepTail
  rw [e2]
  simp only
  rw [es]
  cases v with
  | charwise => exact ⟨_, rfl, vac2, ll2⟩
  | bytewise =>
    obtain ⟨h', e3⟩ := Helper.useBase_active ((Helper.Active_congr c1 c2 c3 base).2 (hb rfl))
    simp only [e3]
    exact ⟨_, rfl, vac2, Helper.useBase_ll ll2 e3⟩

theorem layoutStep_progress {v : Variant} {m : Mapper} {t : Trie V} {u : List Nat}
    {stack : List (List Nat)} {lay : Lay} {vac : List Nat} {BL n : Nat} (hBL : BL = 2 ^ n)
    (hvb : v = .bytewise → BL = 256) (pf : PF BL lay (u :: stack)) (ll : lay.h.LL vac)
    {edges : List (Nat × List Nat)} (hec : edgeCodes v m t u = .ok edges)
    (nd : (edges.map (·.1)).Nodup) (hclt : ∀ e ∈ edges, e.1 < BL) :
    (∃ lay', layoutStep v m t u stack lay = .ok ((edges.map (·.2)).reverse ++ stack, lay') ∧
      ∃ vac', lay'.h.LL vac') ∨
    layoutStep v m t u stack lay = .error .automatonScale := by
  cases edges with
  | nil => exact Or.inl ⟨lay, layoutStep_nil stack lay hec, vac, ll⟩
  | cons e0 rest =>
    rw [layoutStep_cons stack lay hec]
    have hbl : lay.h.blockLen = 2 ^ n := pf.bl.trans hBL
    have hpos : 0 < 2 ^ n := Nat.two_pow_pos n
    have hsz : lay.states.size = lay.h.numBlocks * 2 ^ n := by rw [pf.size, hBL]
    have hc : ∀ c ∈ (e0 :: rest).map (·.1), c < 2 ^ n := by
      intro c hcm
      obtain ⟨e, he, rfl⟩ := List.mem_map.1 hcm
      rw [← hBL]; exact hclt e he
    have hc0 : ((e0 :: rest).map (·.1)).headD 0 < 2 ^ n := hc _ (by simp)
    have hsidx : lay.idx.getD u deadIdx < lay.states.size := pf.stackLt u List.mem_cons_self
    have hactlt : ∀ j, lay.h.Active j → j < lay.states.size := by
      intro j a; rw [hsz, ← hbl]; exact a.2
    obtain ⟨base, eb, hcase⟩ := findBase_progress v pf.wf ll hbl hc hc0
    rw [eb]
    simp only
    rcases hcase with ⟨hok, i, hi, hbi⟩ | hfb
    · -- a BASE was found among the vacant indices: no extension
      have ab : lay.h.Active base := by rw [hbi]; exact (active_xor hbl i hc0).2 (ll.active hi)
      rw [if_neg (by have := hactlt base ab; omega)]
      simp only
      left
      have hsl := baseOk_true_slots hok
      apply stepTail_progress v stack pf.wf ll nd
      · intro e he
        exact (ll.mem _).2 (hsl e.1 (List.mem_map.2 ⟨e, he, rfl⟩))
      · intro e he
        exact hactlt _ (hsl e.1 (List.mem_map.2 ⟨e, he, rfl⟩)).1
      · exact hsidx
      · intro _; exact ab
    · -- the fallback BASE: the array is extended by one block
      have hdiv : base / 2 ^ n = lay.h.numBlocks := by
        rw [hfb]
        unfold fallbackBase
        cases v with
        | bytewise => simp only; rw [hsz]; exact Nat.mul_div_cancel _ hpos
        | charwise =>
          simp only
          rw [xor_div_pow _ _ n hc0, hsz]; exact Nat.mul_div_cancel _ hpos
      have hge : lay.states.size ≤ base := by
        have := (div_eq_bounds hpos hdiv).1
        rw [hsz]; exact this
      rw [if_pos hge]
      rcases extendArray_progress v pf.wf ll (fun hv => pf.bl.trans (hvb hv))
          (by rw [pf.size, pf.bl]) with ⟨lay1, e1, _, sz1, wf1, nb1, bl1, nfb1, ll1⟩ | hscale
      · rw [e1]
        simp only
        left
        have hslot : ∀ e ∈ e0 :: rest, lay.h.numBlocks * 2 ^ n ≤ base ^^^ e.1 ∧
            base ^^^ e.1 < lay.h.numBlocks * 2 ^ n + 2 ^ n := by
          intro e he
          apply div_eq_bounds hpos
          rw [xor_div_pow _ _ n (hc e.1 (List.mem_map.2 ⟨e, he, rfl⟩)), hdiv]
        apply stepTail_progress v stack wf1 ll1 nd
        · intro e he
          rw [List.mem_append, List.mem_range'_1, hbl]
          exact Or.inr (hslot e he)
        · intro e he
          rw [sz1, hsz, hbl]; exact (hslot e he).2
        · rw [sz1]; omega
        · intro _
          rw [active_iff_div_pow (bl1.trans hbl), hdiv, nb1]
          have := wf1.nfb_pos
          unfold Helper.activeStart
          omega
      · rw [hscale]
        exact Or.inr rfl

/-! ## 6. DFS bookkeeping, the fuel bound and the loop -/

/-- Ghost bookkeeping of the DFS: `seen` are the popped nodes. -/
structure T (t : Trie V) (seen stack : List (List Nat)) : Prop where
  nd : (seen ++ stack).Nodup
  node : ∀ w ∈ seen ++ stack, t.hasNode w = true
  par : ∀ p c, p ++ [c] ∈ seen ++ stack → p ∈ seen

theorem T.init (t : Trie V) : T t [] [[]] := by
  refine ⟨by simp, ?_, ?_⟩
  · intro w hw
    simp only [List.nil_append, List.mem_singleton] at hw
    subst hw; exact Trie.hasNode_nil t
  · intro p c hp
    simp only [List.nil_append, List.mem_singleton] at hp
    exact absurd hp (by simp)

theorem T.step {t : Trie V} {seen rest : List (List Nat)} {u : List Nat} {L : List (List Nat)}
    (tt : T t seen (u :: rest)) (hL : L.Nodup) (hsub : ∀ w ∈ L, w ∈ t.childPaths u) :
    T t (u :: seen) (L.reverse ++ rest) := by
  have h := tt.nd
  rw [List.nodup_append, List.nodup_cons] at h
  obtain ⟨ns, ⟨hur, nr⟩, hdis⟩ := h
  have hus : u ∉ seen := fun hu => hdis u hu u List.mem_cons_self rfl
  have hkid : ∀ w ∈ L, ∃ c, w = u ++ [c] ∧ t.hasNode w = true := by
    intro w hw
    obtain ⟨c, rfl, hc, _⟩ := (Trie.mem_childPaths t u w).1 (hsub w hw)
    exact ⟨c, rfl, hc⟩
  have hfresh : ∀ w ∈ L, w ∉ seen ++ u :: rest := by
    intro w hw hmem
    obtain ⟨c, rfl, _⟩ := hkid w hw
    exact hus (tt.par u c hmem)
  have hne : ∀ w ∈ L, w ≠ u := by
    intro w hw e
    obtain ⟨c, h1, _⟩ := hkid w hw
    rw [e] at h1
    have := congrArg List.length h1
    simp at this
  refine ⟨?_, ?_, ?_⟩
  · show (u :: (seen ++ (L.reverse ++ rest))).Nodup
    rw [List.nodup_cons, List.nodup_append, List.nodup_append]
    refine ⟨?_, ns, ⟨LayB.nodup_reverse' hL, nr, ?_⟩, ?_⟩
    · intro hm
      simp only [List.mem_append, List.mem_reverse] at hm
      rcases hm with hm | hm | hm
      · exact hus hm
      · exact hne u hm rfl
      · exact hur hm
    · intro a ha b hb e
      subst e
      rw [List.mem_reverse] at ha
      exact hfresh a ha (List.mem_append_right _ (List.mem_cons_of_mem _ hb))
    · intro a ha b hb e
      subst e
      simp only [List.mem_append, List.mem_reverse] at hb
      rcases hb with hb | hb
      · exact hfresh a hb (List.mem_append_left _ ha)
      · exact hdis a ha a (List.mem_cons_of_mem _ hb) rfl
  · intro w hw
    simp only [List.cons_append, List.mem_cons, List.mem_append, List.mem_reverse] at hw
    rcases hw with rfl | hw | hw | hw
    · exact tt.node _ (List.mem_append_right _ List.mem_cons_self)
    · exact tt.node w (List.mem_append_left _ hw)
    · exact (hkid w hw).choose_spec.2
    · exact tt.node w (List.mem_append_right _ (List.mem_cons_of_mem _ hw))
  · intro p c hp
    simp only [List.cons_append, List.mem_cons, List.mem_append, List.mem_reverse] at hp
    rcases hp with hp | hp | hp | hp
    · exact List.mem_cons_of_mem _ (tt.par p c (by
        rw [hp]; exact List.mem_append_right _ List.mem_cons_self))
    · exact List.mem_cons_of_mem _ (tt.par p c (List.mem_append_left _ hp))
    · obtain ⟨c', h1, _⟩ := hkid _ hp
      rw [(LayB.snoc_inj h1).1]; exact List.mem_cons_self
    · exact List.mem_cons_of_mem _ (tt.par p c
        (List.mem_append_right _ (List.mem_cons_of_mem _ hp)))

theorem T.length_le {t : Trie V} {seen stack : List (List Nat)} (hsort : t.Sorted)
    (tt : T t seen stack) : seen.length + stack.length ≤ t.size := by
  have := List.Nodup.length_le_of_subset tt.nd (l₂ := t.paths []) (by
    intro w hw
    exact (Trie.mem_paths_nil t hsort w).2 (tt.node w hw))
  rw [List.length_append, ← Trie.size_eq_length_paths t []] at this
  exact this

/-- The edge list of a node: codes pairwise distinct and below the block length, children
pairwise distinct. -/
def EdgesOK (v : Variant) (m : Mapper) (t : Trie V) (u : List Nat) (BL : Nat) : Prop :=
  ∃ edges, edgeCodes v m t u = .ok edges ∧ (edges.map (·.1)).Nodup ∧ (∀ e ∈ edges, e.1 < BL) ∧
    (edges.map (·.2)).Nodup ∧ ∀ w ∈ edges.map (·.2), w ∈ t.childPaths u

theorem layoutLoop_nil (v : Variant) (m : Mapper) (t : Trie V) (fuel : Nat) (lay : Lay) :
    layoutLoop v m t fuel [] lay = .ok lay := by
  cases fuel <;> rfl

theorem layoutLoop_cons (v : Variant) (m : Mapper) (t : Trie V) (fuel : Nat) (u : List Nat)
    (stack : List (List Nat)) (lay : Lay) :
    layoutLoop v m t (fuel + 1) (u :: stack) lay =
      match layoutStep v m t u stack lay with
      | .error e => .error e
      | .ok (stack', lay') => layoutLoop v m t fuel stack' lay' := rfl

/-- The DFS loop with fuel `t.size + 1` returns or reports the scale error, for any invariant `J`
that is preserved by successful steps and provides the range facts `PF`. -/
theorem layoutLoop_progress {v : Variant} {m : Mapper} {t : Trie V} {BL n : Nat}
    (J : Lay → List (List Nat) → Prop) (hsort : t.Sorted) (hBL : BL = 2 ^ n)
    (hvb : v = .bytewise → BL = 256)
    (hpf : ∀ lay stack, J lay stack → PF BL lay stack)
    (hstep : ∀ u stack lay stack' lay', J lay (u :: stack) →
      layoutStep v m t u stack lay = .ok (stack', lay') → J lay' stack')
    (hedges : ∀ u, t.hasNode u = true → EdgesOK v m t u BL) :
    ∀ (fuel : Nat) (stack : List (List Nat)) (lay : Lay) (seen : List (List Nat)) (vac : List Nat),
      J lay stack → lay.h.LL vac → T t seen stack → t.size + 1 ≤ fuel + seen.length →
      (∃ lay', layoutLoop v m t fuel stack lay = .ok lay' ∧ J lay' []) ∨
        layoutLoop v m t fuel stack lay = .error .automatonScale := by
  intro fuel
  induction fuel with
  | zero =>
    intro stack lay seen vac hj ll tt hf
    cases stack with
    | nil => exact Or.inl ⟨lay, layoutLoop_nil v m t 0 lay, hj⟩
    | cons u rest =>
      have := tt.length_le hsort
      simp only [List.length_cons] at this
      omega
  | succ fuel ih =>
    intro stack lay seen vac hj ll tt hf
    cases stack with
    | nil => exact Or.inl ⟨lay, layoutLoop_nil v m t _ lay, hj⟩
    | cons u rest =>
      obtain ⟨edges, hec, nd1, hclt, nd2, hsub⟩ :=
        hedges u (tt.node u (List.mem_append_right _ List.mem_cons_self))
      rw [layoutLoop_cons]
      rcases layoutStep_progress hBL hvb (hpf _ _ hj) ll hec nd1 hclt with
        ⟨lay', es, vac', ll'⟩ | hs
      · rw [es]
        simp only
        exact ih _ lay' (u :: seen) vac' (hstep _ _ _ _ _ hj es) ll' (tt.step nd2 hsub)
          (by simp only [List.length_cons]; omega)
      · rw [hs]
        exact Or.inr rfl

/-! ## 7. Edge lists -/

theorem nodup_map_fst_of {edges : List (Nat × List Nat)} (h2 : (edges.map (·.2)).Nodup)
    (hinj : ∀ e ∈ edges, ∀ e' ∈ edges, e.1 = e'.1 → e.2 = e'.2) : (edges.map (·.1)).Nodup := by
  induction edges with
  | nil => simp
  | cons e r ih =>
    simp only [List.map_cons, List.nodup_cons] at h2 ⊢
    refine ⟨?_, ih h2.2 (fun a ha b hb => hinj a (List.mem_cons_of_mem _ ha) b
      (List.mem_cons_of_mem _ hb))⟩
    intro hm
    obtain ⟨e', he', h1⟩ := List.mem_map.1 hm
    have := hinj e' (List.mem_cons_of_mem _ he') e List.mem_cons_self h1
    exact h2.1 (List.mem_map.2 ⟨e', he', this⟩)

theorem edgesOK_bytewise {m : Mapper} {t : Trie V} (hsort : t.Sorted)
    (hbytes : ∀ u, t.hasNode u = true → ∀ c ∈ u, c < 256) {u : List Nat}
    (hu : t.hasNode u = true) : EdgesOK .bytewise m t u 256 := by
  have nd2 : ((LayB.edgesB t u).map (·.2)).Nodup := by
    rw [LayB.edgesB_map_snd]; exact Trie.nodup_childPaths t hsort u
  refine ⟨LayB.edgesB t u, rfl, ?_, ?_, nd2, ?_⟩
  · apply nodup_map_fst_of nd2
    intro e he e' he' h1
    obtain ⟨c, _, rfl⟩ := (LayB.mem_edgesB hu e).1 he
    obtain ⟨c', _, rfl⟩ := (LayB.mem_edgesB hu e').1 he'
    simp only at h1
    subst h1; rfl
  · intro e he
    obtain ⟨c, hc, rfl⟩ := (LayB.mem_edgesB hu e).1 he
    exact hbytes _ hc c (by simp)
  · intro w hw
    rw [LayB.edgesB_map_snd] at hw; exact hw

theorem ecStep_foldl_progress (m : Mapper) (L : List (List Nat)) (l0 : List (Nat × List Nat))
    (h : ∀ w ∈ L, ∃ k, m.get (w.getLastD 0) = some k) :
    ∃ r, L.foldl (LayC.ecStep m) (.ok l0) = .ok r := by
  induction L generalizing l0 with
  | nil => exact ⟨l0, rfl⟩
  | cons w L ih =>
    obtain ⟨k, hk⟩ := h w List.mem_cons_self
    have : LayC.ecStep m (.ok l0) w = .ok (insertByCodeP (k, w) l0) := by
      unfold LayC.ecStep; rw [hk]
    rw [List.foldl_cons, this]
    exact ih _ (fun w' hw' => h w' (List.mem_cons_of_mem _ hw'))

theorem edgesOK_charwise {m : Mapper} {t : Trie V} {BL : Nat} (hsort : t.Sorted)
    (hm : MapperOk m) (hα : m.alphaSize ≤ BL)
    (hmap : ∀ u, t.hasNode u = true → ∀ c ∈ u, ∃ k, m.get c = some k) {u : List Nat}
    (_hu : t.hasNode u = true) : EdgesOK .charwise m t u BL := by
  have hkid : ∀ w ∈ t.childPaths u, ∃ c, w = u ++ [c] ∧ w.getLastD 0 = c ∧
      ∃ k, m.get c = some k := by
    intro w hw
    obtain ⟨c, rfl, hc, _⟩ := (Trie.mem_childPaths t u w).1 hw
    exact ⟨c, rfl, by rw [List.getLastD_concat], hmap _ hc c (by simp)⟩
  obtain ⟨edges, hec⟩ : ∃ edges, edgeCodes .charwise m t u = .ok edges := by
    rw [LayC.edgeCodes_eq]
    apply ecStep_foldl_progress
    intro w hw
    obtain ⟨c, _, h2, h3⟩ := hkid w (List.mem_reverse.1 hw)
    rw [h2]; exact h3
  obtain ⟨p1, p2⟩ := LayC.edgeCodes_spec m t u edges hec
  have nd2 : (edges.map (·.2)).Nodup := p1.nodup_iff.2 (Trie.nodup_childPaths t hsort u)
  have hmem : ∀ e ∈ edges, e.2 ∈ t.childPaths u := fun e he =>
    p1.mem_iff.1 (List.mem_map.2 ⟨e, he, rfl⟩)
  refine ⟨edges, hec, ?_, ?_, nd2, ?_⟩
  · apply nodup_map_fst_of nd2
    intro e he e' he' h1
    obtain ⟨c, q1, q2, _⟩ := hkid _ (hmem e he)
    obtain ⟨c', q1', q2', _⟩ := hkid _ (hmem e' he')
    have g1 := p2 e he
    have g2 := p2 e' he'
    rw [q2] at g1
    rw [q2', ← h1] at g2
    rw [q1, q1', hm.2 c c' e.1 g1 g2]
  · intro e he
    exact Nat.lt_of_lt_of_le (hm.1 _ _ (p2 e he)) hα
  · intro w hw
    obtain ⟨e, he, rfl⟩ := List.mem_map.1 hw
    exact hmem e he

/-! ## 8. `setFailOut`, `sanitiseBlocks` -/

theorem setFailOut_progress (v : Variant) (nfa : Nfa V) : ∀ (L : List (List Nat)) (lay : Lay),
    (∀ u ∈ L, lay.idx.getD u deadIdx < lay.states.size) →
    (∃ lay2, setFailOut v nfa L lay = .ok lay2 ∧ lay2.h = lay.h ∧ lay2.idx = lay.idx ∧
      lay2.states.size = lay.states.size) ∨
    setFailOut v nfa L lay = .error .automatonScale := by
  intro L
  induction L with
  | nil => intro lay _; exact Or.inl ⟨lay, rfl, rfl, rfl, rfl⟩
  | cons u rest ih =>
    intro lay hlt
    unfold setFailOut
    simp only
    by_cases hs : v = .bytewise ∧ nfa.out.opos.getD u 0 > u24Max
    · rw [if_pos hs]; exact Or.inr rfl
    · rw [if_neg hs, setSt_lt _ (hlt u List.mem_cons_self)]
      simp only
      rcases ih { lay with states := lay.states.modify (lay.idx.getD u deadIdx) _ } (by
          intro w hw
          simp only [Array.size_modify]
          exact hlt w (List.mem_cons_of_mem _ hw)) with ⟨lay2, e2, a, b, c⟩ | hsc
      · exact Or.inl ⟨lay2, e2, a, b, by rw [c]; simp⟩
      · exact Or.inr hsc

theorem sanitiseBlocks_progress {h : Helper} (hbl : h.blockLen = 256) : ∀ (k B : Nat)
    (s : Array St), h.activeStart ≤ B → B + k ≤ h.numBlocks → s.size = h.numBlocks * 256 →
    ∃ s', sanitiseBlocks h k B s = .ok s' := by
  intro k
  induction k with
  | zero => intro B s _ _ _; exact ⟨s, rfl⟩
  | succ k ih =>
    intro B s lo hi hsz
    obtain ⟨s1, e1, sz1⟩ := removeInvalidChecks_progress (s := s) hbl lo (by omega) hsz
    unfold sanitiseBlocks
    rw [e1]
    exact ih (B + 1) s1 (by omega) (by omega) (sz1.trans hsz)

/-! ## 9. Assembly -/

/-- The block length of the variant. -/
def blOf (v : Variant) (m : Mapper) : Nat :=
  match v with
  | .bytewise => bytewiseBlockLen
  | .charwise => max 2 (Nat.nextPowerOfTwo m.alphaSize)

/-- The state `build_double_array` starts from. -/
def initLay (v : Variant) (bl : Nat) (h3 : Helper) : Lay :=
  ⟨Array.replicate bl (stDefault v), h3, ({} : Std.HashMap (List Nat) Nat).insert [] rootIdx⟩

/-- Everything after the DFS loop. -/
def afterLoop (v : Variant) (nfa : Nfa V) (t : Trie V) (r : Except BuildErr Lay) :
    Except BuildErr (Array St) :=
  match r with
  | .error e => .error e
  | .ok lay1 =>
    match setFailOut v nfa (t.paths []) lay1 with
    | .error e => .error e
    | .ok lay2 =>
      match v with
      | .charwise => .ok lay2.states
      | .bytewise =>
        sanitiseBlocks lay2.h (lay2.h.numBlocks - lay2.h.activeStart) lay2.h.activeStart lay2.states

theorem buildLayout_eq (v : Variant) (cfg : Cfg) (m : Mapper) (t : Trie V) (nfa : Nfa V) :
    buildLayout v cfg m t nfa =
      match Helper.new (blOf v m) cfg.nfb with
      | .error e => .error e
      | .ok h0 =>
        match h0.pushBlock with
        | .error _ => .error (.panic "push_block().unwrap()")
        | .ok h1 =>
          match h1.useIndex rootIdx with
          | .error e => .error e
          | .ok h2 =>
            match h2.useIndex deadIdx with
            | .error e => .error e
            | .ok h3 =>
              afterLoop v nfa t (layoutLoop v m t (t.size + 1) [[]] (initLay v (blOf v m) h3)) := by
  cases v <;> rfl

theorem Helper.new_scale {bl nfb : Nat} (h : bl * nfb > u32Max) :
    Helper.new bl nfb = .error .automatonScale := by
  unfold Helper.new
  simp only
  rw [if_pos h]

/-- The initialisation either reports the scale error or reaches the DFS loop with a linked
helper. -/
theorem buildLayout_init (v : Variant) (cfg : Cfg) (m : Mapper) (t : Trie V) (nfa : Nfa V)
    (hnfb : 1 ≤ cfg.nfb) (hbl : 2 ≤ blOf v m) :
    buildLayout v cfg m t nfa = .error .automatonScale ∨
    ∃ h0 h1 h2 h3, Helper.new (blOf v m) cfg.nfb = .ok h0 ∧ h0.pushBlock = .ok h1 ∧
      h1.useIndex rootIdx = .ok h2 ∧ h2.useIndex deadIdx = .ok h3 ∧
      (∃ vac, h3.LL vac) ∧
      buildLayout v cfg m t nfa =
        afterLoop v nfa t (layoutLoop v m t (t.size + 1) [[]] (initLay v (blOf v m) h3)) := by
  by_cases hcap : blOf v m * cfg.nfb > u32Max
  · left
    rw [buildLayout_eq, Helper.new_scale hcap]
  · right
    obtain ⟨h0, h1, h2, h3, e0, e1, e2, e3, _, ll3⟩ :=
      Helper.init_ll (bl := blOf v m) (nfb := cfg.nfb) hbl hnfb (by omega)
    have e2' : h1.useIndex rootIdx = .ok h2 := e2
    have e3' : h2.useIndex deadIdx = .ok h3 := e3
    refine ⟨h0, h1, h2, h3, e0, e1, e2', e3', ⟨_, ll3⟩, ?_⟩
    rw [buildLayout_eq, e0]
    simp only
    rw [e1]
    simp only
    rw [e2']
    simp only
    rw [e3']

theorem buildLayout_no_panic_charwise (cfg : Cfg) (m : Mapper) (t : Trie V) (nfa : Nfa V)
    (hnfb : 1 ≤ cfg.nfb) (hsort : t.Sorted) (hm : MapperOk m)
    (hmap : ∀ u, t.hasNode u = true → ∀ c ∈ u, ∃ k, m.get c = some k) :
    (∃ states, buildLayout .charwise cfg m t nfa = .ok states) ∨
      buildLayout .charwise cfg m t nfa = .error .automatonScale := by
  obtain ⟨⟨n, hpow⟩, hBL2, hα⟩ := LayC.blockLen_facts m.alphaSize
  rcases buildLayout_init .charwise cfg m t nfa hnfb hBL2 with hs |
    ⟨h0, h1, h2, h3, e0, e1, e2, e3, ⟨vac, ll3⟩, heq⟩
  · exact Or.inr hs
  · rw [heq]
    have hmC : LayC.MapperOk m := hm
    have I0 : LayC.Inv m t (blOf .charwise m) (initLay .charwise (blOf .charwise m) h3) [[]] :=
      LayC.inv_init e0 e1 e2 e3
    rcases layoutLoop_progress (v := .charwise) (m := m) (t := t)
        (fun lay stack => LayC.Inv m t (blOf .charwise m) lay stack) hsort hpow
        (by intro h; cases h)
        (fun lay stack I => ⟨I.wf, I.bl, I.size, fun u hu => I.ixLt u (I.stackHas u hu)⟩)
        (fun u stack lay stack' lay' I e => LayC.layoutStep_inv hBL2 hα hmC hsort I e)
        (fun u hu => edgesOK_charwise hsort hm hα hmap hu)
        (t.size + 1) [[]] _ [] vac I0 ll3 (T.init t) (by simp) with ⟨lay1, el, I1⟩ | hs
    · rw [el]
      have hall := LayC.inv_all_placed I1
      rcases setFailOut_progress .charwise nfa (t.paths []) lay1 (by
          intro u hu
          exact I1.ixLt u (hall u ((Trie.mem_paths_nil t hsort u).1 hu))) with
        ⟨lay2, e2, _⟩ | hsc
      · left
        refine ⟨lay2.states, ?_⟩
        unfold afterLoop
        simp only [e2]
      · right
        unfold afterLoop
        simp only [hsc]
    · right
      rw [hs]; rfl

theorem buildLayout_no_panic_bytewise (cfg : Cfg) (m : Mapper) (t : Trie V) (nfa : Nfa V)
    (hnfb : 1 ≤ cfg.nfb) (hsort : t.Sorted)
    (hbytes : ∀ u, t.hasNode u = true → ∀ c ∈ u, c < 256) :
    (∃ states, buildLayout .bytewise cfg m t nfa = .ok states) ∨
      buildLayout .bytewise cfg m t nfa = .error .automatonScale := by
  rcases buildLayout_init .bytewise cfg m t nfa hnfb
      (show 2 ≤ (256 : Nat) by decide) with hs |
    ⟨h0, h1, h2, h3, e0, e1, e2, e3, ⟨vac, ll3⟩, heq⟩
  · exact Or.inr hs
  · rw [heq]
    have inv0 := LayB.init_inv t e0 e1 e2 e3
    have I0 : ∃ done, LayB.Inv t done [[]] (LayB.ixOf (initLay .bytewise (blOf .bytewise m) h3))
        (LayB.gs (initLay .bytewise (blOf .bytewise m) h3).states)
        (initLay .bytewise (blOf .bytewise m) h3).states.size
        (initLay .bytewise (blOf .bytewise m) h3).h := by
      refine ⟨[], ?_⟩
      have hsz : (initLay .bytewise (blOf .bytewise m) h3).states.size = 256 := by
        show (Array.replicate 256 (stDefault .bytewise)).size = 256
        rw [Array.size_replicate]
      rw [hsz]; exact inv0
    rcases layoutLoop_progress (v := .bytewise) (m := m) (t := t) (BL := 256)
        (fun lay stack => ∃ done, LayB.Inv t done stack (LayB.ixOf lay) (LayB.gs lay.states)
          lay.states.size lay.h) hsort two56 (fun _ => rfl)
        (fun lay stack ⟨_, I⟩ => ⟨I.wf, I.bl, I.size, fun u hu => I.lt u (I.stackPl u hu)⟩)
        (fun u stack lay stack' lay' ⟨_, I⟩ e => LayB.layoutStep_inv hsort hbytes I e)
        (fun u hu => edgesOK_bytewise hsort hbytes hu)
        (t.size + 1) [[]] _ [] vac I0 ll3 (T.init t) (by simp) with ⟨lay1, el, ⟨done, I1⟩⟩ | hs
    · rw [el]
      rcases setFailOut_progress .bytewise nfa (t.paths []) lay1 (by
          intro u hu
          exact I1.lt u (I1.node_pl ((Trie.mem_paths_nil t hsort u).1 hu))) with
        ⟨lay2, e2, eh, _, esz⟩ | hsc
      · left
        obtain ⟨s', es'⟩ := sanitiseBlocks_progress (h := lay2.h) (by rw [eh]; exact I1.bl)
          (lay2.h.numBlocks - lay2.h.activeStart) lay2.h.activeStart lay2.states (Nat.le_refl _)
          (by unfold Helper.activeStart; omega) (by rw [esz, eh]; exact I1.size)
        refine ⟨s', ?_⟩
        unfold afterLoop
        simp only [e2]
        exact es'
      · right
        unfold afterLoop
        simp only [hsc]
    · right
      rw [hs]; rfl

/-! ## 10. The whole pipeline -/

theorem retainedKeys_subset (lf : Bool) (ks : List (List Nat)) (k : List Nat)
    (h : k ∈ retainedKeys lf ks) : k ∈ ks := by
  unfold retainedKeys at h
  split at h
  · obtain ⟨i, hi, h1, _⟩ := (mem_retKeys ks k).1 h
    exact h1 ▸ List.getElem_mem hi
  · exact h

theorem buildRest_total (variant : Variant) (cfg : Cfg) (m : Mapper) (t : Trie V) (len : Nat)
    (hlay : (∃ states, buildLayout variant cfg m t (buildNfa t (cfg.kind != 0)) = .ok states) ∨
      buildLayout variant cfg m t (buildNfa t (cfg.kind != 0)) = .error .automatonScale) :
    (∃ da, buildRest variant cfg m t len = .ok da) ∨
      buildRest variant cfg m t len = .error .invalidArgument ∨
      buildRest variant cfg m t len = .error .automatonScale := by
  unfold buildRest
  by_cases hl : len = 0
  · rw [if_pos hl]; exact Or.inr (Or.inl rfl)
  · rw [if_neg hl]
    by_cases hs : variant = .bytewise ∧ len > u24Max
    · rw [if_pos hs]; exact Or.inr (Or.inr rfl)
    · rw [if_neg hs]
      simp only
      rcases hlay with ⟨states, e⟩ | e
      · rw [e]; exact Or.inl ⟨_, rfl⟩
      · rw [e]; exact Or.inr (Or.inr rfl)

/-- **Totality of construction.** For every pattern collection (with the documented input
conventions: byte labels for the byte-wise builder, a mapper table within `u32` for the char-wise
one) `buildDA` returns `Ok` or one of the documented error kinds: never a panic, never
`invalidConversion`. -/
theorem buildDA_total (variant : Variant) (cfg : Cfg) (P : List (LPat V)) (hk : keysOk P)
    (hnfb : 1 ≤ cfg.nfb)
    (hbytes : variant = .bytewise → ∀ p ∈ P, ∀ c ∈ p.key, c < 256)
    (hsz : variant = .charwise → tableLen P < 4294967295) :
    (∃ da, buildDA variant cfg P = .ok da) ∨ buildDA variant cfg P = .error .invalidArgument ∨
      buildDA variant cfg P = .error .duplicatePattern ∨
      buildDA variant cfg P = .error .automatonScale := by
  rw [buildDA_eq, if_neg (by omega)]
  rcases NfaAcc.addAll_spec P (AccInv.init (cfg.kind == 2)) hk with
    ⟨acc, hadd, _⟩ | ⟨h1, _⟩ | ⟨h1, _⟩
  · rw [hadd]
    simp only
    by_cases hl : acc.len = 0
    · right; left
      simp [buildRest, hl]
    · have ht : buildTrie cfg.kind P = .ok acc.trie := by simp [buildTrie, hadd, hl]
      have hsort := buildTrie_sorted _ _ _ ht
      have hnode : ∀ u, acc.trie.hasNode u = true → ∀ c ∈ u, ∃ p ∈ P, c ∈ p.key := by
        intro u hu c hc
        rcases (buildTrie_nodes cfg.kind P hk _ ht u).1 hu with h0 | ⟨k, hkm, hpre⟩
        · subst h0; cases hc
        · obtain ⟨p, hp, rfl⟩ := List.mem_map.1 (retainedKeys_subset _ _ _ hkm)
          exact ⟨p, hp, ((mem_nprefixes _ _).1 hpre).2.subset hc⟩
      have hlay : (∃ states, buildLayout variant cfg (mapperFor variant P) acc.trie
            (buildNfa acc.trie (cfg.kind != 0)) = .ok states) ∨
          buildLayout variant cfg (mapperFor variant P) acc.trie
            (buildNfa acc.trie (cfg.kind != 0)) = .error .automatonScale := by
        cases variant with
        | bytewise =>
          apply buildLayout_no_panic_bytewise _ _ _ _ hnfb hsort
          intro u hu c hc
          obtain ⟨p, hp, hcp⟩ := hnode u hu c hc
          exact hbytes rfl p hp c hcp
        | charwise =>
          apply buildLayout_no_panic_charwise _ _ _ _ hnfb hsort (mapperOk_build' P)
          intro u hu c hc
          obtain ⟨p, hp, hcp⟩ := hnode u hu c hc
          exact mapper_maps_labels P (hsz rfl) p hp c hcp
      rcases buildRest_total variant cfg (mapperFor variant P) acc.trie acc.len hlay with
        h | h | h
      · exact Or.inl h
      · exact Or.inr (Or.inl h)
      · exact Or.inr (Or.inr (Or.inr h))
  · rw [h1]; exact Or.inr (Or.inl rfl)
  · rw [h1]; exact Or.inr (Or.inr (Or.inl rfl))

#print axioms buildLayout_no_panic_bytewise
#print axioms buildLayout_no_panic_charwise
#print axioms buildDA_total

end Daac

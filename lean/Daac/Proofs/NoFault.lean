/-
Memory safety of the search model: under `DA.boundsInv`, no checked access of the model
(`DA.st`, `DA.out`) ever faults with `oobStates` / `oobOutputs`.
-/
import Daac.Inv
namespace Daac
variable {V : Type}

/-! ### 0. Arithmetic -/

theorem isPow2_exists {b : Nat} (h : isPow2 b = true) : ∃ n, b = 2 ^ n := by
  have h' : b ≠ 0 ∧ (b &&& (b - 1)) = 0 := by simpa [isPow2] using h
  exact Nat.ne_zero_and_sub_one_eq_zero_iff_isPowerOfTwo.1 h'

/-- XOR with a value below the block length stays inside a whole number of blocks. -/
theorem xor_block_pow (b c k n : Nat) (hc : c < 2 ^ n) (hb : b < 2 ^ n * k) :
    b ^^^ c < 2 ^ n * k := by
  have h1 : (b ^^^ c) / 2 ^ n = b / 2 ^ n := by
    have : (b ^^^ c) >>> n = (b >>> n) ^^^ (c >>> n) := Nat.shiftRight_xor_distrib
    simp only [Nat.shiftRight_eq_div_pow] at this
    have hc0 : c / 2 ^ n = 0 := Nat.div_eq_of_lt hc
    rw [hc0, Nat.xor_zero] at this
    exact this
  have hpos : 0 < 2 ^ n := Nat.two_pow_pos n
  have h2 : b / 2 ^ n < k := Nat.div_lt_of_lt_mul hb
  have h3 : (b ^^^ c) / 2 ^ n < k := by omega
  have := (Nat.div_lt_iff_lt_mul hpos).1 h3
  rw [Nat.mul_comm]; exact this

/-! ### 1. Facts extracted from `boundsInv` -/

/-- The propositional content of `DA.boundsInv`. -/
structure Bounds (da : DA V) : Prop where
  size_pos : 0 < da.states.size
  pow : ∃ n k, da.blockLen = 2 ^ n ∧ da.states.size = 2 ^ n * k
  base_lt : ∀ i (h : i < da.states.size), (da.states[i]).base < da.states.size
  fail_lt : ∀ i (h : i < da.states.size), (da.states[i]).fail < da.states.size
  opos_le : ∀ i (h : i < da.states.size), (da.states[i]).opos ≤ da.outputs.size
  parent_le : ∀ j (h : j < da.outputs.size), (da.outputs[j]).parent ≤ j
  code_lt : da.variant = .charwise → ∀ label c, da.code label = some c → c < da.blockLen

theorem bounds_of_boundsInv (da : DA V) (hB : da.boundsInv = true) : Bounds da := by
  simp only [DA.boundsInv, Bool.and_eq_true, bne_iff_ne, ne_eq, beq_iff_eq] at hB
  obtain ⟨⟨⟨⟨⟨h0, hp⟩, hmod⟩, hst⟩, hout⟩, hmap⟩ := hB
  obtain ⟨n, hn⟩ := isPow2_exists hp
  have hst' : ∀ i (h : i < da.states.size), (da.states[i]).base < da.states.size ∧
      (da.states[i]).fail < da.states.size ∧ (da.states[i]).opos ≤ da.outputs.size := by
    intro i h
    rw [Array.all_eq_true] at hst
    have := hst i h
    simpa [Bool.and_eq_true, and_assoc] using this
  refine ⟨Nat.pos_of_ne_zero h0, ⟨n, da.states.size / 2 ^ n, hn, ?_⟩,
    fun i h => (hst' i h).1, fun i h => (hst' i h).2.1, fun i h => (hst' i h).2.2, ?_, ?_⟩
  · rw [hn] at hmod
    exact (Nat.mul_div_cancel' (Nat.dvd_of_mod_eq_zero hmod)).symm
  · intro j h
    rw [List.all_eq_true] at hout
    have hm : (da.outputs[j], j) ∈ da.outputs.toList.zipIdx := by
      rw [List.mem_zipIdx_iff_getElem?]
      simp [h]
    simpa using hout _ hm
  · intro hv label c hc
    rw [hv] at hmap
    simp only [DA.code, hv] at hc
    cases hl : da.mapTable[label]? with
    | none => simp [hl] at hc
    | some x =>
      simp only [hl] at hc
      have hx : x ∈ da.mapTable := Array.mem_of_getElem? hl
      rw [Array.all_eq_true_iff_forall_mem] at hmap
      have := hmap x hx
      split at hc
      · cases hc
      · simp at hc
        subst hc
        simpa [*] using this

/-- Byte-wise mapper is the identity. -/
theorem code_bytewise (da : DA V) (hv : da.variant = .bytewise) (label : Nat) :
    da.code label = some label := by
  simp [DA.code, hv]

theorem blockLen_bytewise (da : DA V) (hv : da.variant = .bytewise) : da.blockLen = 256 := by
  simp [DA.blockLen, hv, Gen.blockLen]

/-! ### 2. Checked accesses and `child` -/

/-- A mapped code is below the block length. -/
def CodeOk (da : DA V) (c : Nat) : Prop := c < da.blockLen

/-- The faults this file excludes. -/
def NoOob (e : Fault) : Prop := e ≠ .oobStates ∧ e ≠ .oobOutputs

theorem NoOob.fuel : NoOob .fuel := by simp [NoOob]

theorem st_ok (da : DA V) {i : Nat} (h : i < da.states.size) : da.st i = .ok da.states[i] := by
  simp [DA.st, h]

theorem st_in_range (da : DA V) (hb : Bounds da) {i : Nat} (h : i < da.states.size) :
    ∃ st, da.st i = .ok st ∧ st.base < da.states.size ∧ st.fail < da.states.size ∧
      st.opos ≤ da.outputs.size :=
  ⟨_, st_ok da h, hb.base_lt i h, hb.fail_lt i h, hb.opos_le i h⟩

/-- Item 4: a valid 1-based position yields a record whose parent points strictly backwards. -/
theorem out_no_oob (da : DA V) (hb : Bounds da) {p : Nat} (h1 : 1 ≤ p)
    (h2 : p ≤ da.outputs.size) : ∃ o, da.out p = .ok o ∧ o.parent < p := by
  have hp : p - 1 < da.outputs.size := by omega
  refine ⟨da.outputs[p - 1], ?_, ?_⟩
  · have : p ≠ 0 := by omega
    simp [DA.out, this, hp]
  · have := hb.parent_le (p - 1) hp
    omega

theorem xor_in_range (da : DA V) (hb : Bounds da) {b c : Nat} (hbase : b < da.states.size)
    (hc : CodeOk da c) : b ^^^ c < da.states.size := by
  obtain ⟨n, k, h1, h2⟩ := hb.pow
  unfold CodeOk at hc
  rw [h1] at hc
  rw [h2] at hbase ⊢
  exact xor_block_pow b c k n hc hbase

/-- Item 2. -/
theorem child_no_oob (da : DA V) (hb : Bounds da) {s c : Nat} (hs : s < da.states.size)
    (hc : CodeOk da c) :
    ∃ r, da.child s c = .ok r ∧ ∀ t, r = some t → t < da.states.size := by
  have hx := xor_in_range da hb (hb.base_lt s hs) hc
  unfold DA.child
  rw [st_ok da hs]
  simp only
  split
  · exact ⟨none, rfl, by simp⟩
  · rw [st_ok da hx]
    simp only
    split <;> split <;> first
      | exact ⟨_, rfl, by intro t ht; cases ht; exact hx⟩
      | exact ⟨_, rfl, by simp⟩

/-! ### 3. Transition loops -/

theorem nextLoop_no_oob (da : DA V) (hb : Bounds da) {c : Nat} (hc : CodeOk da c) :
    ∀ (fuel s n : Nat), s < da.states.size →
      (∀ t k, da.nextLoop fuel s c n = .ok (t, k) → t < da.states.size) ∧
      (∀ e, da.nextLoop fuel s c n = .error e → e = .fuel) := by
  intro fuel
  induction fuel with
  | zero => intro s n _; simp [DA.nextLoop]
  | succ fuel ih =>
    intro s n hs
    obtain ⟨r, hr, hrt⟩ := child_no_oob da hb hs hc
    unfold DA.nextLoop
    rw [hr]
    cases r with
    | some t =>
      simp only
      refine ⟨?_, by simp⟩
      intro t' k h; cases h; exact hrt _ rfl
    | none =>
      simp only
      split
      · refine ⟨?_, by simp⟩
        intro t' k h; cases h; simpa [rootIdx, Gen.rootStateIdx] using hb.size_pos
      · rw [st_ok da hs]
        exact ih _ _ (hb.fail_lt s hs)

theorem nextLoopLm_no_oob (da : DA V) (hb : Bounds da) {c : Nat} (hc : CodeOk da c) :
    ∀ (fuel s n : Nat), s < da.states.size →
      (∀ t k, da.nextLoopLm fuel s c n = .ok (t, k) → t < da.states.size) ∧
      (∀ e, da.nextLoopLm fuel s c n = .error e → e = .fuel) := by
  intro fuel
  induction fuel with
  | zero => intro s n _; simp [DA.nextLoopLm]
  | succ fuel ih =>
    intro s n hs
    obtain ⟨r, hr, hrt⟩ := child_no_oob da hb hs hc
    have hroot : rootIdx < da.states.size := by
      simpa [rootIdx, Gen.rootStateIdx] using hb.size_pos
    unfold DA.nextLoopLm
    rw [hr]
    cases r with
    | some t =>
      simp only
      refine ⟨?_, by simp⟩
      intro t' k h; cases h; exact hrt _ rfl
    | none =>
      simp only
      split
      · refine ⟨?_, by simp⟩
        intro t' k h; cases h; exact hroot
      · rw [st_ok da hs]
        simp only
        split
        · refine ⟨?_, by simp⟩
          intro t' k h; cases h; exact hroot
        · exact ih _ _ (hb.fail_lt s hs)

theorem root_lt (da : DA V) (hb : Bounds da) : rootIdx < da.states.size := by
  simpa [rootIdx, Gen.rootStateIdx] using hb.size_pos

/-- Every code a label maps to is below the block length. -/
def LabelCodeOk (da : DA V) (label : Nat) : Prop := ∀ c, da.code label = some c → CodeOk da c

theorem next_no_oob (da : DA V) (hb : Bounds da) {s label : Nat} (hs : s < da.states.size)
    (hl : LabelCodeOk da label) :
    (∀ t, da.next s label = .ok t → t < da.states.size) ∧
    (∀ e, da.next s label = .error e → e = .fuel) := by
  unfold DA.next DA.nextS
  cases hc : da.code label with
  | none =>
    simp only [Except.map]
    refine ⟨?_, by simp⟩
    intro t h; cases h; exact root_lt da hb
  | some c =>
    simp only
    have := nextLoop_no_oob da hb (hl c hc) da.fuel s 0 hs
    cases hn : da.nextLoop da.fuel s c 0 with
    | error e =>
      simp only [Except.map]
      refine ⟨by simp, ?_⟩
      intro e' h; cases h; exact this.2 e hn
    | ok p =>
      simp only [Except.map]
      refine ⟨?_, by simp⟩
      intro t h; cases h; exact this.1 p.1 p.2 hn

theorem nextLm_no_oob (da : DA V) (hb : Bounds da) {s label : Nat} (hs : s < da.states.size)
    (hl : LabelCodeOk da label) :
    (∀ t, da.nextLm s label = .ok t → t < da.states.size) ∧
    (∀ e, da.nextLm s label = .error e → e = .fuel) := by
  unfold DA.nextLm DA.nextLmS
  cases hc : da.code label with
  | none =>
    simp only [Except.map]
    refine ⟨?_, by simp⟩
    intro t h; cases h; exact root_lt da hb
  | some c =>
    simp only
    have := nextLoopLm_no_oob da hb (hl c hc) da.fuel s 0 hs
    cases hn : da.nextLoopLm da.fuel s c 0 with
    | error e =>
      simp only [Except.map]
      refine ⟨by simp, ?_⟩
      intro e' h; cases h; exact this.2 e hn
    | ok p =>
      simp only [Except.map]
      refine ⟨?_, by simp⟩
      intro t h; cases h; exact this.1 p.1 p.2 hn

/-- Char-wise: every label is fine (item 1). -/
theorem labelCodeOk_charwise (da : DA V) (hb : Bounds da) (hv : da.variant = .charwise)
    (label : Nat) : LabelCodeOk da label :=
  fun c hc => hb.code_lt hv label c hc

/-- Byte-wise: a label is fine iff it is a byte. -/
theorem labelCodeOk_bytewise (da : DA V) (hv : da.variant = .bytewise) {label : Nat}
    (h : label < 256) : LabelCodeOk da label := by
  intro c hc
  rw [code_bytewise da hv] at hc
  cases hc
  simpa [CodeOk, blockLen_bytewise da hv] using h

/-! ### 5. Haystack items -/

/-- Hypothesis on the haystack: for the byte-wise variant all (remaining) bytes are bytes. -/
def HayOk (da : DA V) (l : List Nat) : Prop := da.variant = .bytewise → ∀ b ∈ l, b < 256

theorem HayOk.drop {da : DA V} {l : List Nat} (h : HayOk da l) (n : Nat) : HayOk da (l.drop n) :=
  fun hv b hb => h hv b (List.mem_of_mem_drop hb)

/-- The only faults of the item decoder are UTF-8 decoding faults. -/
def Utf8Fault (e : Fault) : Prop := e = .truncatedUtf8 ∨ e = .invalidScalar

theorem Utf8Fault.noOob {e : Fault} (h : Utf8Fault e) : NoOob e := by
  rcases h with h | h <;> subst h <;> simp [NoOob]

theorem decodeNext_err {s : Src} {e : Fault} (h : decodeNext s = .error e) : Utf8Fault e := by
  unfold decodeNext at h
  unfold Utf8Fault
  dsimp only at h
  repeat' split at h
  all_goals first
    | (cases h; simp; done)
    | cases h

theorem nextItem_err {v : Variant} {s : Src} {e : Fault} (h : nextItem v s = .error e) :
    Utf8Fault e := by
  unfold nextItem at h
  split at h
  · split at h <;> cases h
  · exact decodeNext_err h

theorem nextItem_ok (da : DA V) (hb : Bounds da) {s s' : Src} {item : Item}
    (h : nextItem da.variant s = .ok (some (item, s'))) (hh : HayOk da s.rest) :
    LabelCodeOk da item.label ∧ HayOk da s'.rest := by
  cases hv : da.variant with
  | charwise =>
    exact ⟨labelCodeOk_charwise da hb hv _, fun hv' => by rw [hv] at hv'; cases hv'⟩
  | bytewise =>
    rw [hv] at h
    have hall := hh hv
    simp only [nextItem, Src.pull] at h
    cases hr : s.rest with
    | nil => simp [hr] at h
    | cons b r =>
      simp only [hr, Except.ok.injEq, Option.some.injEq, Prod.mk.injEq] at h
      obtain ⟨h1, h2⟩ := h
      subst h1 h2
      rw [hr] at hall
      refine ⟨labelCodeOk_bytewise da hv (hall b (by simp)), fun _ x hx => hall x ?_⟩
      simp [hx]

/-! ### 6. Iterators of the standard kind -/

/-- Fuel exhaustion (termination is a separate property) or a UTF-8 decoding fault. -/
theorem noOob_of_eq_fuel {e : Fault} (h : e = .fuel) : NoOob e := by subst h; exact NoOob.fuel

/-- State read + output read after a transition: shared by all scanning loops. -/
theorem st_out_no_oob (da : DA V) (hb : Bounds da) {i : Nat} (h : i < da.states.size) :
    ∃ st, da.st i = .ok st ∧ st.opos ≤ da.outputs.size ∧
      (st.opos ≠ 0 → ∃ o, da.out st.opos = .ok o ∧ o.parent < st.opos) := by
  refine ⟨_, st_ok da h, hb.opos_le i h, fun h0 => ?_⟩
  exact out_no_oob da hb (by omega) (hb.opos_le i h)

theorem scanFirst_no_oob (da : DA V) (hb : Bounds da) :
    ∀ (fuel state : Nat) (src : Src), state < da.states.size → HayOk da src.rest →
      (∀ r state' src', scanFirst da fuel state src = .ok (r, state', src') →
        state' < da.states.size ∧ HayOk da src'.rest) ∧
      (∀ e, scanFirst da fuel state src = .error e → NoOob e) := by
  intro fuel
  induction fuel with
  | zero => intro state src _ _; simp [scanFirst, NoOob.fuel]
  | succ fuel ih =>
    intro state src hs hh
    unfold scanFirst
    cases hi : nextItem da.variant src with
    | error e =>
      simp only
      refine ⟨by simp, ?_⟩
      intro e' h; cases h; exact (nextItem_err hi).noOob
    | ok o =>
      cases o with
      | none =>
        simp only
        refine ⟨?_, by simp⟩
        intro r state' src' h; cases h; exact ⟨hs, hh⟩
      | some p =>
        obtain ⟨item, src1⟩ := p
        simp only
        obtain ⟨hl, hh1⟩ := nextItem_ok da hb hi hh
        have hn := next_no_oob da hb hs hl
        cases hnx : da.next state item.label with
        | error e =>
          simp only
          refine ⟨by simp, ?_⟩
          intro e' h; cases h; exact noOob_of_eq_fuel (hn.2 e hnx)
        | ok state1 =>
          simp only
          have hs1 := hn.1 state1 hnx
          obtain ⟨st, hst, _, hout⟩ := st_out_no_oob da hb hs1
          rw [hst]
          simp only
          split
          · rename_i h0
            obtain ⟨o, ho, _⟩ := hout h0
            rw [ho]
            simp only
            refine ⟨?_, by simp⟩
            intro r state' src' h; cases h; exact ⟨hs1, hh1⟩
          · exact ih state1 src1 hs1 hh1

/-- `FindIterator`: the only invariant is the label hypothesis on the remaining haystack. -/
def FindIt.Ok (da : DA V) (it : FindIt) : Prop := HayOk da it.src.rest

theorem FindIt.next_no_oob (da : DA V) (hb : Bounds da) {it : FindIt} (hok : FindIt.Ok da it) :
    (∀ r it', FindIt.next da it = .ok ⟨r, it'⟩ → FindIt.Ok da it') ∧
    (∀ e, FindIt.next da it = .error e → NoOob e) := by
  have := scanFirst_no_oob da hb (it.src.rest.length + 1) rootIdx it.src (root_lt da hb) hok
  unfold FindIt.next
  cases hsc : scanFirst da (it.src.rest.length + 1) rootIdx it.src with
  | error e =>
    simp only
    refine ⟨by simp, ?_⟩
    intro e' h; cases h; exact this.2 e hsc
  | ok p =>
    obtain ⟨r, state', src'⟩ := p
    simp only
    refine ⟨?_, by simp⟩
    intro r' it' h; cases h; exact (this.1 r state' src' hsc).2

/-- `FindOverlappingNoSuffixIterator`. -/
def NoSufIt.Ok (da : DA V) (it : NoSufIt) : Prop :=
  it.state < da.states.size ∧ HayOk da it.src.rest

theorem NoSufIt.next_no_oob (da : DA V) (hb : Bounds da) {it : NoSufIt}
    (hok : NoSufIt.Ok da it) :
    (∀ r it', NoSufIt.next da it = .ok ⟨r, it'⟩ → NoSufIt.Ok da it') ∧
    (∀ e, NoSufIt.next da it = .error e → NoOob e) := by
  have := scanFirst_no_oob da hb (it.src.rest.length + 1) it.state it.src hok.1 hok.2
  unfold NoSufIt.next
  cases hsc : scanFirst da (it.src.rest.length + 1) it.state it.src with
  | error e =>
    simp only
    refine ⟨by simp, ?_⟩
    intro e' h; cases h; exact this.2 e hsc
  | ok p =>
    obtain ⟨r, state', src'⟩ := p
    simp only
    refine ⟨?_, by simp⟩
    intro r' it' h; cases h; exact this.1 r state' src' hsc

/-- `FindOverlappingIterator`: state in range, pending output position `0` or valid. -/
def OvIt.Ok (da : DA V) (it : OvIt) : Prop :=
  it.state < da.states.size ∧ it.opos ≤ da.outputs.size ∧ HayOk da it.src.rest

theorem scanOv_no_oob (da : DA V) (hb : Bounds da) :
    ∀ (fuel : Nat) (it : OvIt), OvIt.Ok da it →
      (∀ r it', scanOv da fuel it = .ok ⟨r, it'⟩ → OvIt.Ok da it') ∧
      (∀ e, scanOv da fuel it = .error e → NoOob e) := by
  intro fuel
  induction fuel with
  | zero => intro it _; simp [scanOv, NoOob.fuel]
  | succ fuel ih =>
    intro it hok
    obtain ⟨hs, hop, hh⟩ := hok
    unfold scanOv
    cases hi : nextItem da.variant it.src with
    | error e =>
      simp only
      refine ⟨by simp, ?_⟩
      intro e' h; cases h; exact (nextItem_err hi).noOob
    | ok o =>
      cases o with
      | none =>
        simp only
        refine ⟨?_, by simp⟩
        intro r it' h; cases h; exact ⟨hs, hop, hh⟩
      | some p =>
        obtain ⟨item, src1⟩ := p
        simp only
        obtain ⟨hl, hh1⟩ := nextItem_ok da hb hi hh
        have hn := next_no_oob da hb hs hl
        cases hnx : da.next it.state item.label with
        | error e =>
          simp only
          refine ⟨by simp, ?_⟩
          intro e' h; cases h; exact noOob_of_eq_fuel (hn.2 e hnx)
        | ok state1 =>
          simp only
          have hs1 := hn.1 state1 hnx
          obtain ⟨st, hst, hle, hout⟩ := st_out_no_oob da hb hs1
          rw [hst]
          simp only
          split
          · rename_i h0
            obtain ⟨o, ho, hpar⟩ := hout h0
            rw [ho]
            simp only
            refine ⟨?_, by simp⟩
            intro r it' h; cases h
            exact ⟨hs1, by simp only; omega, hh1⟩
          · exact ih _ ⟨hs1, hop, hh1⟩

theorem OvIt.next_no_oob (da : DA V) (hb : Bounds da) {it : OvIt} (hok : OvIt.Ok da it) :
    (∀ r it', OvIt.next da it = .ok ⟨r, it'⟩ → OvIt.Ok da it') ∧
    (∀ e, OvIt.next da it = .error e → NoOob e) := by
  unfold OvIt.next
  split
  · rename_i h0
    obtain ⟨o, ho, hpar⟩ := out_no_oob da hb (by omega) hok.2.1
    rw [ho]
    simp only
    refine ⟨?_, by simp⟩
    intro r it' h; cases h
    exact ⟨hok.1, by have := hok.2.1; simp only; omega, hok.2.2⟩
  · exact scanOv_no_oob da hb _ it hok

/-! ### 7. `collectWith` -/

theorem collectWith_no_oob {σ : Type} (next : σ → Except Fault (Step σ V)) (pulled : σ → Nat)
    (Ok : σ → Prop)
    (hstep : ∀ it, Ok it → (∀ r it', next it = .ok ⟨r, it'⟩ → Ok it') ∧
      (∀ e, next it = .error e → NoOob e)) :
    ∀ (fuel : Nat) (it : σ), Ok it → ∀ e, collectWith next pulled fuel it = .error e → NoOob e := by
  intro fuel
  induction fuel with
  | zero => intro it _ e h; simp [collectWith] at h; subst h; exact NoOob.fuel
  | succ fuel ih =>
    intro it hok e h
    unfold collectWith at h
    cases hn : next it with
    | error e' =>
      rw [hn] at h
      simp only at h
      cases h
      exact (hstep it hok).2 e hn
    | ok stp =>
      obtain ⟨r, it'⟩ := stp
      rw [hn] at h
      cases r with
      | none => simp at h
      | some m =>
        simp only at h
        have hok' := (hstep it hok).1 _ _ hn
        cases hc : collectWith next pulled fuel it' with
        | error e' =>
          rw [hc] at h
          simp only at h
          cases h
          exact ih it' hok' e hc
        | ok q =>
          rw [hc] at h
          simp at h

/-- Hypothesis of the top-level theorems: for the byte-wise automaton the haystack consists of
bytes (`< 256`); nothing is assumed for the char-wise automaton. -/
theorem findAll_no_oob (da : DA V) (hB : da.boundsInv = true) (h : List Nat)
    (hbytes : HayOk da h) : ∀ e, findAll da h = .error e → NoOob e := by
  have hb := bounds_of_boundsInv da hB
  exact collectWith_no_oob _ _ (FindIt.Ok da) (fun it hok => FindIt.next_no_oob da hb hok) _ _
    hbytes

theorem noSufAll_no_oob (da : DA V) (hB : da.boundsInv = true) (h : List Nat)
    (hbytes : HayOk da h) : ∀ e, noSufAll da h = .error e → NoOob e := by
  have hb := bounds_of_boundsInv da hB
  exact collectWith_no_oob _ _ (NoSufIt.Ok da) (fun it hok => NoSufIt.next_no_oob da hb hok) _ _
    ⟨root_lt da hb, hbytes⟩

theorem ovAll_no_oob (da : DA V) (hB : da.boundsInv = true) (h : List Nat)
    (hbytes : HayOk da h) : ∀ e, ovAll da h = .error e → NoOob e := by
  have hb := bounds_of_boundsInv da hB
  exact collectWith_no_oob _ _ (OvIt.Ok da) (fun it hok => OvIt.next_no_oob da hb hok) _ _
    ⟨root_lt da hb, Nat.zero_le _, hbytes⟩

/-! ### 8. Leftmost iterator -/

theorem allItems_no_oob (da : DA V) (hb : Bounds da) :
    ∀ (fuel : Nat) (s : Src), HayOk da s.rest →
      (∀ l, allItems da.variant fuel s = .ok l → ∀ it ∈ l, LabelCodeOk da it.label) ∧
      (∀ e, allItems da.variant fuel s = .error e → NoOob e) := by
  intro fuel
  induction fuel with
  | zero => intro s _; simp [allItems, NoOob.fuel]
  | succ fuel ih =>
    intro s hh
    unfold allItems
    cases hi : nextItem da.variant s with
    | error e =>
      simp only
      refine ⟨by simp, ?_⟩
      intro e' h; cases h; exact (nextItem_err hi).noOob
    | ok o =>
      cases o with
      | none => simp
      | some p =>
        obtain ⟨item, s1⟩ := p
        simp only
        obtain ⟨hl, hh1⟩ := nextItem_ok da hb hi hh
        have := ih s1 hh1
        cases ha : allItems da.variant fuel s1 with
        | error e =>
          simp only
          refine ⟨by simp, ?_⟩
          intro e' h; cases h; exact this.2 e ha
        | ok l =>
          simp only
          refine ⟨?_, by simp⟩
          intro l' h; cases h
          intro it hit
          rcases List.mem_cons.1 hit with h | h
          · subst h; exact hl
          · exact this.1 l ha it h

theorem lmItems_no_oob (da : DA V) (hb : Bounds da) {h : List Nat} (hh : HayOk da h) (pos : Nat) :
    (∀ l, lmItems da.variant h pos = .ok l → ∀ it ∈ l, LabelCodeOk da it.label) ∧
    (∀ e, lmItems da.variant h pos = .error e → NoOob e) := by
  have := allItems_no_oob da hb ((h.drop pos).length + 1) ⟨h.drop pos, pos⟩ (hh.drop pos)
  unfold lmItems
  split
  · exact this
  · split
    · exact this
    · refine ⟨by simp, ?_⟩
      intro e h; cases h; simp [NoOob]

theorem lmLoop_no_oob (da : DA V) (hb : Bounds da) :
    ∀ (items : List WItem) (state cand pos skips : Nat),
      (∀ it ∈ items, LabelCodeOk da it.label) → state < da.states.size →
      cand ≤ da.outputs.size →
      ∀ e, lmLoop da items state cand pos skips = .error e → NoOob e := by
  intro items
  induction items with
  | nil =>
    intro state cand pos skips _ _ hc e h
    unfold lmLoop at h
    split at h
    · cases h
    · rename_i h0
      obtain ⟨o, ho, _⟩ := out_no_oob da hb (by omega) hc
      rw [ho] at h
      cases h
  | cons item rest ih =>
    intro state cand pos skips hl hs hc e h
    have hl1 : LabelCodeOk da item.label := hl item (by simp)
    have hl2 : ∀ it ∈ rest, LabelCodeOk da it.label := fun it hit => hl it (by simp [hit])
    have hn := nextLm_no_oob da hb hs hl1
    unfold lmLoop at h
    cases hnx : da.nextLm state item.label with
    | error e' =>
      rw [hnx] at h
      simp only at h
      cases h
      exact noOob_of_eq_fuel (hn.2 e hnx)
    | ok state1 =>
      rw [hnx] at h
      simp only at h
      have hs1 := hn.1 state1 hnx
      split at h
      · split at h
        · rename_i h0
          obtain ⟨o, ho, _⟩ := out_no_oob da hb (by omega) hc
          rw [ho] at h
          cases h
        · exact ih _ _ _ _ hl2 hs1 hc e h
      · obtain ⟨st, hst, hle, _⟩ := st_out_no_oob da hb hs1
        rw [hst] at h
        simp only at h
        split at h
        · exact ih _ _ _ _ hl2 hs1 hle e h
        · exact ih _ _ _ _ hl2 hs1 hc e h

/-- `LestmostFindIterator`: only the label hypothesis on the (owned) haystack. -/
def LmIt.Ok (da : DA V) (it : LmIt) : Prop := HayOk da it.hay

theorem LmIt.next_no_oob (da : DA V) (hb : Bounds da) {it : LmIt} (hok : LmIt.Ok da it) :
    (∀ r it', LmIt.next da it = .ok ⟨r, it'⟩ → LmIt.Ok da it') ∧
    (∀ e, LmIt.next da it = .error e → NoOob e) := by
  have hit := lmItems_no_oob da hb hok it.pos
  unfold LmIt.next
  cases hi : lmItems da.variant it.hay it.pos with
  | error e =>
    simp only
    refine ⟨by simp, ?_⟩
    intro e' h; cases h; exact hit.2 e hi
  | ok items =>
    simp only
    have hlm := lmLoop_no_oob da hb items rootIdx 0 it.pos 0 (hit.1 items hi) (root_lt da hb)
      (Nat.zero_le _)
    cases hl : lmLoop da items rootIdx 0 it.pos 0 with
    | error e =>
      simp only
      refine ⟨by simp, ?_⟩
      intro e' h; cases h; exact hlm e hl
    | ok p =>
      obtain ⟨r, pos'⟩ := p
      simp only
      refine ⟨?_, by simp⟩
      intro r' it' h; cases h; exact hok

theorem lmAll_no_oob (da : DA V) (hB : da.boundsInv = true) (h : List Nat)
    (hbytes : HayOk da h) : ∀ e, lmAll da h = .error e → NoOob e := by
  have hb := bounds_of_boundsInv da hB
  exact collectWith_no_oob _ _ (LmIt.Ok da) (fun it hok => LmIt.next_no_oob da hb hok) _ _
    hbytes

/-! ### 9. Convenience forms -/

/-- `NoOob` spelled out: the remaining faults are fuel exhaustion and UTF-8 decoding faults. -/
theorem noOob_iff (e : Fault) :
    NoOob e ↔ (e = .fuel ∨ e = .truncatedUtf8 ∨ e = .invalidScalar ∨ e = .badSlice) := by
  cases e <;> simp [NoOob]

/-- The hypothesis of the top-level theorems is vacuous for the char-wise automaton … -/
theorem hayOk_charwise (da : DA V) (hv : da.variant = .charwise) (h : List Nat) : HayOk da h :=
  fun hv' => by rw [hv] at hv'; cases hv'

/-- … and is "all bytes are `< 256`" (= `Gen.blockLen`) for the byte-wise one. -/
theorem hayOk_of_bytes (da : DA V) {h : List Nat} (hbytes : ∀ b ∈ h, b < 256) : HayOk da h :=
  fun _ => hbytes

/-! ### 10. The transition-counting scan (`scanSteps`, property C13) -/

theorem nextS_no_oob (da : DA V) (hb : Bounds da) {s label : Nat} (hs : s < da.states.size)
    (hl : LabelCodeOk da label) :
    (∀ t k, da.nextS s label = .ok (t, k) → t < da.states.size) ∧
    (∀ e, da.nextS s label = .error e → e = .fuel) := by
  unfold DA.nextS
  cases hc : da.code label with
  | none =>
    simp only
    refine ⟨?_, by simp⟩
    intro t k h; cases h; exact root_lt da hb
  | some c => exact nextLoop_no_oob da hb (hl c hc) da.fuel s 0 hs

theorem scanSteps_no_oob (da : DA V) (hb : Bounds da) :
    ∀ (fuel state : Nat) (src : Src) (n : Nat), state < da.states.size → HayOk da src.rest →
      ∀ e, scanSteps da fuel state src n = .error e → NoOob e := by
  intro fuel
  induction fuel with
  | zero => intro state src n _ _ e h; simp [scanSteps] at h; subst h; exact NoOob.fuel
  | succ fuel ih =>
    intro state src n hs hh e h
    unfold scanSteps at h
    cases hi : nextItem da.variant src with
    | error e' =>
      rw [hi] at h; simp only at h; cases h
      exact (nextItem_err hi).noOob
    | ok o =>
      rw [hi] at h
      cases o with
      | none => simp at h
      | some p =>
        obtain ⟨item, src1⟩ := p
        simp only at h
        obtain ⟨hl, hh1⟩ := nextItem_ok da hb hi hh
        have hn := nextS_no_oob da hb hs hl
        cases hnx : da.nextS state item.label with
        | error e' =>
          rw [hnx] at h; simp only at h; cases h
          exact noOob_of_eq_fuel (hn.2 e hnx)
        | ok q =>
          obtain ⟨state1, k⟩ := q
          rw [hnx] at h; simp only at h
          exact ih _ _ _ (hn.1 state1 k hnx) hh1 e h

#print axioms bounds_of_boundsInv
#print axioms child_no_oob
#print axioms nextLoop_no_oob
#print axioms nextLoopLm_no_oob
#print axioms next_no_oob
#print axioms nextLm_no_oob
#print axioms out_no_oob
#print axioms findAll_no_oob
#print axioms noSufAll_no_oob
#print axioms ovAll_no_oob
#print axioms lmAll_no_oob

end Daac

/-
UTF-8: reference encoder (specification), correctness of the hand-written decoder model
`decodeNext` on valid UTF-8, whole-string decoding, character boundaries and
self-synchronisation.
-/
import Daac.Model.Search
namespace Daac

/-! ### 1. Reference encoder (specification of UTF-8) -/

def utf8Width (c : Nat) : Nat :=
  if c < 0x80 then 1 else if c < 0x800 then 2 else if c < 0x10000 then 3 else 4

def encScalar (c : Nat) : List Nat :=
  if c < 0x80 then [c]
  else if c < 0x800 then [0xC0 + c / 64, 0x80 + c % 64]
  else if c < 0x10000 then [0xE0 + c / 4096, 0x80 + (c / 64) % 64, 0x80 + c % 64]
  else [0xF0 + c / 262144, 0x80 + (c / 4096) % 64, 0x80 + (c / 64) % 64, 0x80 + c % 64]

def encAll (cs : List Nat) : List Nat := cs.flatMap encScalar

def ValidUtf8 (bs : List Nat) : Prop :=
  ∃ cs, (∀ c ∈ cs, isScalar c = true) ∧ bs = encAll cs

/-- A continuation byte `10xxxxxx`. -/
def isCont (b : Nat) : Prop := 0x80 ≤ b ∧ b < 0xC0

theorem isScalar_iff (c : Nat) :
    isScalar c = true ↔ c < 0xD800 ∨ (0xE000 ≤ c ∧ c < 0x110000) := by
  simp [isScalar]

@[simp] theorem encAll_nil : encAll [] = [] := rfl
@[simp] theorem encAll_cons (c : Nat) (cs : List Nat) :
    encAll (c :: cs) = encScalar c ++ encAll cs := by simp [encAll]
@[simp] theorem encAll_append (a b : List Nat) : encAll (a ++ b) = encAll a ++ encAll b := by
  simp [encAll]

/-! ### 2. Shape of one encoding -/

/-- The four shapes of an encoding, with all range facts. -/
theorem encScalar_cases (c : Nat) :
    (c < 0x80 ∧ utf8Width c = 1 ∧ encScalar c = [c]) ∨
    (0x80 ≤ c ∧ c < 0x800 ∧ utf8Width c = 2 ∧
      encScalar c = [0xC0 + c / 64, 0x80 + c % 64]) ∨
    (0x800 ≤ c ∧ c < 0x10000 ∧ utf8Width c = 3 ∧
      encScalar c = [0xE0 + c / 4096, 0x80 + (c / 64) % 64, 0x80 + c % 64]) ∨
    (0x10000 ≤ c ∧ utf8Width c = 4 ∧
      encScalar c = [0xF0 + c / 262144, 0x80 + (c / 4096) % 64, 0x80 + (c / 64) % 64,
        0x80 + c % 64]) := by
  unfold utf8Width encScalar
  by_cases h1 : c < 0x80
  · simp [h1]
  by_cases h2 : c < 0x800
  · simp [h1, h2]; omega
  by_cases h3 : c < 0x10000
  · simp [h1, h2, h3]; omega
  · simp [h1, h2, h3]; omega

theorem encScalar_length (c : Nat) : (encScalar c).length = utf8Width c := by
  rcases encScalar_cases c with h | h | h | h <;> simp [h]

theorem utf8Width_pos (c : Nat) : 1 ≤ utf8Width c := by
  unfold utf8Width; split <;> (try split) <;> (try split) <;> omega

theorem utf8Width_le (c : Nat) : utf8Width c ≤ 4 := by
  unfold utf8Width; split <;> (try split) <;> (try split) <;> omega

theorem encScalar_ne_nil (c : Nat) : encScalar c ≠ [] := by
  intro h
  have := encScalar_length c
  have := utf8Width_pos c
  simp [h] at *
  omega

theorem encScalar_byte_lt (c : Nat) (hc : isScalar c = true) :
    ∀ b ∈ encScalar c, b < 256 := by
  rw [isScalar_iff] at hc
  rcases encScalar_cases c with h | h | h | h <;> simp [h] <;> omega

/-- The first byte of an encoding is not a continuation byte (and it exists). -/
theorem encScalar_head (c : Nat) :
    ∃ b r, encScalar c = b :: r ∧ ¬ isCont b := by
  unfold isCont
  rcases encScalar_cases c with h | h | h | h
  · exact ⟨_, _, h.2.2, by omega⟩
  · exact ⟨_, _, h.2.2.2, by omega⟩
  · exact ⟨_, _, h.2.2.2, by omega⟩
  · exact ⟨_, _, h.2.2, by omega⟩

/-- All bytes after the first are continuation bytes. -/
theorem encScalar_tail (c : Nat) : ∀ b ∈ (encScalar c).tail, isCont b := by
  unfold isCont
  rcases encScalar_cases c with h | h | h | h <;> simp [h] <;> omega

/-- Dropping `s` bytes, `0 < s < width`, leaves a list starting with a continuation byte. -/
theorem encScalar_drop (c s : Nat) (h0 : 0 < s) (h1 : s < utf8Width c) :
    ∃ b r, (encScalar c).drop s = b :: r ∧ isCont b := by
  unfold isCont
  rcases encScalar_cases c with h | h | h | h
  · omega
  · have : s = 1 := by omega
    subst this; rw [h.2.2.2]; exact ⟨_, _, rfl, by omega⟩
  · have : s = 1 ∨ s = 2 := by omega
    rw [h.2.2.2]
    rcases this with rfl | rfl <;> exact ⟨_, _, rfl, by omega⟩
  · have : s = 1 ∨ s = 2 ∨ s = 3 := by omega
    rw [h.2.2]
    rcases this with rfl | rfl | rfl <;> exact ⟨_, _, rfl, by omega⟩

theorem encAll_length_cons (c : Nat) (cs : List Nat) :
    (encAll (c :: cs)).length = utf8Width c + (encAll cs).length := by
  simp [encScalar_length]

/-! ### 3. The decoder on one encoded scalar -/

theorem and_3f (x : Nat) : x &&& 0x3f = x % 64 := Nat.and_two_pow_sub_one_eq_mod x 6
theorem and_1f (x : Nat) : x &&& 0x1f = x % 32 := Nat.and_two_pow_sub_one_eq_mod x 5
theorem and_0f (x : Nat) : x &&& 0x0f = x % 16 := Nat.and_two_pow_sub_one_eq_mod x 4
theorem and_07 (x : Nat) : x &&& 0x07 = x % 8 := Nat.and_two_pow_sub_one_eq_mod x 3

theorem shl_or (a k b : Nat) (h : b < 2 ^ k) : a <<< k ||| b = a * 2 ^ k + b := by
  rw [← Nat.shiftLeft_add_eq_or_of_lt h, Nat.shiftLeft_eq]

/-- Code point assembled from a 2-byte sequence, as arithmetic. -/
theorem cp2_eq (b0 b1 : Nat) :
    ((b0 &&& 0x1f) <<< 6) ||| (b1 &&& 0x3f) = b0 % 32 * 64 + b1 % 64 := by
  rw [and_3f, and_1f, shl_or _ _ _ (by omega)]

theorem cp3_eq (b0 b1 b2 : Nat) :
    ((b0 &&& 0x0f) <<< 12) ||| (((b1 &&& 0x3f) <<< 6) ||| (b2 &&& 0x3f))
      = b0 % 16 * 4096 + (b1 % 64 * 64 + b2 % 64) := by
  rw [and_3f, and_3f, and_0f, shl_or _ 6 _ (by omega), shl_or _ 12 _ (by omega)]

theorem cp4_eq (b0 b1 b2 b3 : Nat) :
    ((b0 &&& 0x07) <<< 18) |||
        (((((b1 &&& 0x3f) <<< 6) ||| (b2 &&& 0x3f)) <<< 6) ||| (b3 &&& 0x3f))
      = b0 % 8 * 262144 + ((b1 % 64 * 64 + b2 % 64) * 64 + b3 % 64) := by
  rw [and_3f, and_3f, and_3f, and_07, shl_or _ 6 _ (by omega), shl_or _ 6 _ (by omega),
    shl_or _ 18 _ (by omega)]

@[simp] theorem decodeNext_nil (p : Nat) : decodeNext ⟨[], p⟩ = .ok none := by
  simp [decodeNext, Src.pull]

/-- One-byte (ASCII) step of the decoder. -/
theorem decodeNext_1 (b0 : Nat) (r : List Nat) (p : Nat) (h : b0 < 0x80) :
    decodeNext ⟨b0 :: r, p⟩ = .ok (some (⟨b0, p + 1⟩, ⟨r, p + 1⟩)) := by
  simp [decodeNext, Src.pull, h]

/-- Two-byte step of the decoder. -/
theorem decodeNext_2 (b0 b1 : Nat) (r : List Nat) (p : Nat) (h0 : 0x80 ≤ b0) (h1 : b0 < 0xe0)
    (hs : isScalar (b0 % 32 * 64 + b1 % 64) = true) :
    decodeNext ⟨b0 :: b1 :: r, p⟩
      = .ok (some (⟨b0 % 32 * 64 + b1 % 64, p + 2⟩, ⟨r, p + 2⟩)) := by
  have h0' : ¬ b0 < 128 := by omega
  have h1' : b0 < 224 := h1
  simp only [decodeNext, Src.pull, h0', h1', if_true, if_false, cp2_eq, hs]

/-- Three-byte step of the decoder. -/
theorem decodeNext_3 (b0 b1 b2 : Nat) (r : List Nat) (p : Nat) (h0 : 0xe0 ≤ b0) (h1 : b0 < 0xf0)
    (hs : isScalar (b0 % 16 * 4096 + (b1 % 64 * 64 + b2 % 64)) = true) :
    decodeNext ⟨b0 :: b1 :: b2 :: r, p⟩
      = .ok (some (⟨b0 % 16 * 4096 + (b1 % 64 * 64 + b2 % 64), p + 3⟩, ⟨r, p + 3⟩)) := by
  have h0' : ¬ b0 < 128 := by omega
  have h0'' : ¬ b0 < 224 := by omega
  have h1' : b0 < 240 := h1
  simp only [decodeNext, Src.pull, h0', h0'', h1', if_true, if_false, cp3_eq, hs]

/-- Four-byte step of the decoder. -/
theorem decodeNext_4 (b0 b1 b2 b3 : Nat) (r : List Nat) (p : Nat) (h0 : 0xf0 ≤ b0)
    (hs : isScalar (b0 % 8 * 262144 + ((b1 % 64 * 64 + b2 % 64) * 64 + b3 % 64)) = true) :
    decodeNext ⟨b0 :: b1 :: b2 :: b3 :: r, p⟩
      = .ok (some (⟨b0 % 8 * 262144 + ((b1 % 64 * 64 + b2 % 64) * 64 + b3 % 64), p + 4⟩,
          ⟨r, p + 4⟩)) := by
  have h0' : ¬ b0 < 128 := by omega
  have h0'' : ¬ b0 < 224 := by omega
  have h0''' : ¬ b0 < 240 := by omega
  simp only [decodeNext, Src.pull, h0', h0'', h0''', if_true, if_false, cp4_eq, hs]

/-- MAIN decoder lemma: the decoder inverts the reference encoder, consuming exactly
`utf8Width c` bytes, and never faults. -/
theorem decodeNext_encScalar (c : Nat) (hc : isScalar c = true) (r : List Nat) (p : Nat) :
    decodeNext ⟨encScalar c ++ r, p⟩
      = .ok (some (⟨c, p + utf8Width c⟩, ⟨r, p + utf8Width c⟩)) := by
  have hc' := (isScalar_iff c).1 hc
  rcases encScalar_cases c with h | h | h | h
  · rw [h.2.2, h.2.1]; exact decodeNext_1 c r p h.1
  · obtain ⟨ha, hb, hw, he⟩ := h
    have e : (0xC0 + c / 64) % 32 * 64 + (0x80 + c % 64) % 64 = c := by omega
    rw [he, hw]
    have := decodeNext_2 (0xC0 + c / 64) (0x80 + c % 64) r p (by omega) (by omega)
      (by rw [e]; exact hc)
    rw [e] at this; exact this
  · obtain ⟨ha, hb, hw, he⟩ := h
    have e : (0xE0 + c / 4096) % 16 * 4096 +
        ((0x80 + (c / 64) % 64) % 64 * 64 + (0x80 + c % 64) % 64) = c := by omega
    rw [he, hw]
    have := decodeNext_3 (0xE0 + c / 4096) (0x80 + (c / 64) % 64) (0x80 + c % 64) r p
      (by omega) (by omega) (by rw [e]; exact hc)
    rw [e] at this; exact this
  · obtain ⟨ha, hw, he⟩ := h
    have e : (0xF0 + c / 262144) % 8 * 262144 +
        (((0x80 + (c / 4096) % 64) % 64 * 64 + (0x80 + (c / 64) % 64) % 64) * 64
          + (0x80 + c % 64) % 64) = c := by omega
    rw [he, hw]
    have := decodeNext_4 (0xF0 + c / 262144) (0x80 + (c / 4096) % 64) (0x80 + (c / 64) % 64)
      (0x80 + c % 64) r p (by omega) (by rw [e]; exact hc)
    rw [e] at this; exact this

/-- The decoder never returns `none` or an item on anything but a complete read:
corollary used for injectivity of the encoder. -/
theorem encScalar_append_inj (a c : Nat) (ha : isScalar a = true) (hc : isScalar c = true)
    (x y : List Nat) (h : encScalar a ++ x = encScalar c ++ y) : a = c ∧ x = y := by
  have h1 := decodeNext_encScalar a ha x 0
  have h2 := decodeNext_encScalar c hc y 0
  rw [h, h2] at h1
  simp only [Except.ok.injEq, Option.some.injEq, Prod.mk.injEq, Item.mk.injEq, Src.mk.injEq] at h1
  exact ⟨h1.1.1.symm, h1.2.1.symm⟩

/-! ### 4. Whole-string decoding -/

/-- The expected items of the text `cs` starting at byte offset `p`. -/
def itemsOf : List Nat → Nat → List WItem
  | [], _ => []
  | c :: cs, p => ⟨c, utf8Width c, p + utf8Width c⟩ :: itemsOf cs (p + utf8Width c)

@[simp] theorem itemsOf_nil (p : Nat) : itemsOf [] p = [] := rfl
@[simp] theorem itemsOf_cons (c : Nat) (cs : List Nat) (p : Nat) :
    itemsOf (c :: cs) p = ⟨c, utf8Width c, p + utf8Width c⟩ :: itemsOf cs (p + utf8Width c) := rfl

theorem allItems_encAll (cs : List Nat) (h : ∀ c ∈ cs, isScalar c = true) (p : Nat) (fuel : Nat)
    (hf : (encAll cs).length + 1 ≤ fuel) :
    allItems .charwise fuel ⟨encAll cs, p⟩ = .ok (itemsOf cs p) := by
  induction cs generalizing p fuel with
  | nil =>
    cases fuel with
    | zero => simp at hf
    | succ fuel => simp [allItems, nextItem]
  | cons c cs ih =>
    cases fuel with
    | zero => simp at hf
    | succ fuel =>
      have hc : isScalar c = true := h c (by simp)
      have hcs : ∀ d ∈ cs, isScalar d = true := fun d hd => h d (by simp [hd])
      have hw := utf8Width_pos c
      rw [encAll_length_cons] at hf
      have := ih hcs (p + utf8Width c) fuel (by omega)
      simp only [allItems, nextItem, encAll_cons, decodeNext_encScalar c hc, this, itemsOf_cons]
      simp

/-- Facts about every expected item. -/
theorem mem_itemsOf (cs : List Nat) (p : Nat) (it : WItem) (h : it ∈ itemsOf cs p) :
    ∃ t1 t2, cs = t1 ++ it.label :: t2 ∧ it.width = utf8Width it.label ∧
      it.stop = p + (encAll (t1 ++ [it.label])).length ∧ itemsOf t2 it.stop <:+ itemsOf cs p := by
  induction cs generalizing p with
  | nil => simp at h
  | cons c cs ih =>
    rw [itemsOf_cons, List.mem_cons] at h
    rcases h with rfl | h
    · exact ⟨[], cs, by simp, rfl, by simp [encScalar_length], by simp⟩
    · obtain ⟨t1, t2, e, hw, hs, hsuf⟩ := ih _ h
      refine ⟨c :: t1, t2, by simp [e], hw, ?_, ?_⟩
      · rw [hs]; simp [encScalar_length]; omega
      · rw [itemsOf_cons]; exact List.IsSuffix.trans hsuf (List.suffix_cons _ _)

theorem itemsOf_bounds (cs : List Nat) (p : Nat) (it : WItem) (h : it ∈ itemsOf cs p) :
    it.label ∈ cs ∧ it.width = utf8Width it.label ∧ p + it.width ≤ it.stop ∧
      it.stop ≤ p + (encAll cs).length := by
  obtain ⟨t1, t2, e, hw, hs, -⟩ := mem_itemsOf cs p it h
  refine ⟨by simp [e], hw, ?_, ?_⟩
  · rw [hs, hw]; simp [encScalar_length]
  · rw [hs, e]; simp

theorem itemsOf_pairwise (cs : List Nat) (p : Nat) :
    (itemsOf cs p).Pairwise (fun a b => a.stop < b.stop) := by
  induction cs generalizing p with
  | nil => simp
  | cons c cs ih =>
    rw [itemsOf_cons, List.pairwise_cons]
    refine ⟨fun b hb => ?_, ih _⟩
    have := itemsOf_bounds cs _ b hb
    have := utf8Width_pos b.label
    simp only
    omega

theorem itemsOf_getLast (cs : List Nat) (p : Nat) (it : WItem)
    (h : (itemsOf cs p).getLast? = some it) : it.stop = p + (encAll cs).length := by
  induction cs generalizing p with
  | nil => simp at h
  | cons c cs ih =>
    cases cs with
    | nil =>
      simp at h; subst h; simp [encScalar_length]
    | cons d ds =>
      rw [itemsOf_cons, itemsOf_cons, List.getLast?_cons_cons, ← itemsOf_cons] at h
      rw [ih _ h, encAll_length_cons c]; omega

theorem itemsOf_length (cs : List Nat) (p : Nat) : (itemsOf cs p).length = cs.length := by
  induction cs generalizing p with
  | nil => rfl
  | cons c cs ih => simp [ih]

theorem itemsOf_labels (cs : List Nat) (p : Nat) : (itemsOf cs p).map (·.label) = cs := by
  induction cs generalizing p with
  | nil => rfl
  | cons c cs ih => simp [ih]

/-- **No fault on valid UTF-8**: the char-wise decoder decodes every valid UTF-8 byte string
without `truncatedUtf8` / `invalidScalar`, every label is a scalar value, every end offset is
inside the haystack, the last end offset is the length, end offsets strictly increase. -/
theorem decode_valid_no_fault (bs : List Nat) (hv : ValidUtf8 bs) :
    ∃ items, allItems .charwise (bs.length + 1) ⟨bs, 0⟩ = .ok items ∧
      (∀ it ∈ items, isScalar it.label = true ∧ it.width = utf8Width it.label ∧
        it.width ≤ it.stop ∧ it.stop ≤ bs.length) ∧
      (∀ it, items.getLast? = some it → it.stop = bs.length) ∧
      items.Pairwise (fun a b => a.stop < b.stop) ∧
      encAll (items.map (·.label)) = bs := by
  obtain ⟨cs, hcs, rfl⟩ := hv
  refine ⟨itemsOf cs 0, allItems_encAll cs hcs 0 _ (Nat.le_refl _), ?_, ?_, itemsOf_pairwise cs 0,
    by rw [itemsOf_labels]⟩
  · intro it hit
    have := itemsOf_bounds cs 0 it hit
    exact ⟨hcs _ this.1, this.2.1, by omega, by omega⟩
  · intro it hit
    have := itemsOf_getLast cs 0 it hit
    omega

/-- The expected items of the byte-wise iterators. -/
def byteItems (bs : List Nat) (p : Nat) : List WItem :=
  (bs.zipIdx p).map (fun x => ⟨x.1, 1, x.2 + 1⟩)

theorem allItems_bytewise (bs : List Nat) (p : Nat) (fuel : Nat) (hf : bs.length + 1 ≤ fuel) :
    allItems .bytewise fuel ⟨bs, p⟩ = .ok (byteItems bs p) := by
  induction bs generalizing p fuel with
  | nil =>
    cases fuel with
    | zero => simp at hf
    | succ fuel => simp [allItems, nextItem, Src.pull, byteItems]
  | cons b bs ih =>
    cases fuel with
    | zero => simp at hf
    | succ fuel =>
      have := ih (p + 1) fuel (by simp at hf; omega)
      simp only [allItems, nextItem, Src.pull, this]
      simp [byteItems, List.zipIdx_cons]

/-! ### 5. Character boundaries -/

theorem isBoundary_encAll (t1 t2 : List Nat) :
    isBoundary (encAll (t1 ++ t2)) (encAll t1).length = true := by
  cases t2 with
  | nil => simp [isBoundary]
  | cons c t2 =>
    obtain ⟨b, r, e, hb⟩ := encScalar_head c
    unfold isCont at hb
    simp only [isBoundary, encAll_append, encAll_cons, e]
    simp
    omega

/-- At a character boundary the slice `get_unchecked(pos..)` is safe and decodes exactly the
remaining characters. -/
theorem lmItems_encAll (t1 t2 : List Nat) (h : ∀ c ∈ t2, isScalar c = true) :
    lmItems .charwise (encAll (t1 ++ t2)) (encAll t1).length
      = .ok (itemsOf t2 (encAll t1).length) := by
  unfold lmItems
  simp only [isBoundary_encAll, if_true]
  have : (encAll (t1 ++ t2)).drop (encAll t1).length = encAll t2 := by simp
  rw [this]
  exact allItems_encAll t2 h _ _ (Nat.le_refl _)

/-- Every end offset of an item (and `0`) is a boundary from which the leftmost iterator can
resume, yielding exactly the items that follow. -/
theorem lmItems_at_stop (cs : List Nat) (h : ∀ c ∈ cs, isScalar c = true) (it : WItem)
    (hit : it ∈ itemsOf cs 0) :
    isBoundary (encAll cs) it.stop = true ∧
    ∃ t2, itemsOf t2 it.stop <:+ itemsOf cs 0 ∧
      lmItems .charwise (encAll cs) it.stop = .ok (itemsOf t2 it.stop) := by
  obtain ⟨t1, t2, e, -, hs, hsuf⟩ := mem_itemsOf cs 0 it hit
  have hs' : it.stop = (encAll (t1 ++ [it.label])).length := by omega
  have e' : cs = (t1 ++ [it.label]) ++ t2 := by simp [e]
  have h2 : ∀ c ∈ t2, isScalar c = true := fun c hc => h c (by rw [e]; simp [hc])
  refine ⟨?_, t2, hsuf, ?_⟩
  · rw [hs', e']; exact isBoundary_encAll _ _
  · rw [hs', e']; exact lmItems_encAll _ _ h2

theorem lmItems_at_zero (cs : List Nat) (h : ∀ c ∈ cs, isScalar c = true) :
    isBoundary (encAll cs) 0 = true ∧ lmItems .charwise (encAll cs) 0 = .ok (itemsOf cs 0) := by
  have h1 := isBoundary_encAll [] cs
  have h2 := lmItems_encAll [] cs h
  simpa using And.intro h1 h2

/-! ### 6. Self-synchronisation -/

/-- The encoder is a prefix code: a prefix relation between encodings lifts to the texts. -/
theorem encAll_prefix (p t : List Nat) (hp : ∀ c ∈ p, isScalar c = true)
    (ht : ∀ c ∈ t, isScalar c = true) (h : encAll p <+: encAll t) : p <+: t := by
  induction p generalizing t with
  | nil => simp
  | cons a p ih =>
    cases t with
    | nil =>
      obtain ⟨z, hz⟩ := h
      have := encScalar_ne_nil a
      simp at hz
      exact absurd hz.1 this
    | cons c t =>
      obtain ⟨z, hz⟩ := h
      rw [encAll_cons, encAll_cons, List.append_assoc] at hz
      obtain ⟨rfl, e⟩ := encScalar_append_inj a c (hp a (by simp)) (ht c (by simp)) _ _ hz
      rw [List.cons_prefix_cons]
      refine ⟨rfl, ih t (fun d hd => hp d (by simp [hd])) (fun d hd => ht d (by simp [hd])) ⟨z, e⟩⟩

/-- Self-synchronisation: an occurrence of the encoding of a non-empty text `p` inside the
encoding of `t` starts at a character boundary of `t` and is an occurrence of `p` in `t`. -/
theorem self_sync (p t : List Nat) (hp : ∀ c ∈ p, isScalar c = true)
    (ht : ∀ c ∈ t, isScalar c = true) (hne : p ≠ []) (s : Nat)
    (h : encAll p <+: (encAll t).drop s) :
    ∃ t1 t2, t = t1 ++ t2 ∧ (encAll t1).length = s ∧ p <+: t2 := by
  induction t generalizing s with
  | nil =>
    cases p with
    | nil => exact absurd rfl hne
    | cons a p =>
      obtain ⟨z, hz⟩ := h
      have := encScalar_ne_nil a
      simp at hz
      exact absurd hz.1 this
  | cons c t ih =>
    have htc : ∀ d ∈ t, isScalar d = true := fun d hd => ht d (by simp [hd])
    by_cases hs0 : s = 0
    · subst hs0
      exact ⟨[], c :: t, rfl, rfl, encAll_prefix p (c :: t) hp ht (by simpa using h)⟩
    by_cases hsw : s < utf8Width c
    · -- the occurrence would start with a continuation byte
      exfalso
      cases p with
      | nil => exact hne rfl
      | cons a p =>
        obtain ⟨b, r, eb, hb⟩ := encScalar_drop c s (by omega) hsw
        obtain ⟨b', r', eb', hb'⟩ := encScalar_head a
        rw [encAll_cons, encAll_cons, List.drop_append_of_le_length
          (by rw [encScalar_length]; omega), eb, eb'] at h
        simp only [List.cons_append, List.cons_prefix_cons] at h
        exact hb' (h.1 ▸ hb)
    · have e : (encAll (c :: t)).drop s = (encAll t).drop (s - utf8Width c) := by
        rw [encAll_cons, List.drop_append, encScalar_length]
        rw [List.drop_eq_nil_of_le (by rw [encScalar_length]; omega)]
        simp
      rw [e] at h
      obtain ⟨t1, t2, e1, e2, e3⟩ := ih htc _ h
      exact ⟨c :: t1, t2, by simp [e1], by rw [encAll_length_cons, e2]; omega, e3⟩

/-- Variant of `self_sync` phrased with items: the start offset of the occurrence is `0` or the
end offset of an item of the haystack. -/
theorem self_sync_boundary (p t : List Nat) (hp : ∀ c ∈ p, isScalar c = true)
    (ht : ∀ c ∈ t, isScalar c = true) (hne : p ≠ []) (s : Nat)
    (h : encAll p <+: (encAll t).drop s) : isBoundary (encAll t) s = true := by
  obtain ⟨t1, t2, rfl, rfl, -⟩ := self_sync p t hp ht hne s h
  exact isBoundary_encAll t1 t2

end Daac

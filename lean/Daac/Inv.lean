/-
The decidable invariants of DESIGN.md §3.3, as boolean functions over the raw tables of an
automaton and the (label-level) pattern list. They are evaluated by the compiled driver on the
tables dumped by the implementation, and they are the hypotheses of the Rung-1 theorems
(`Daac/Proofs`, `Daac/Props`): the theorems are proved from these very definitions, so there is
no separate checker to trust.
-/
import Daac.Basic
import Daac.Spec
import Daac.Model.Search
namespace Daac
variable {V : Type}

/-- A pattern as the automaton sees it: key as a list of labels (bytes, or code points for the
char-wise automaton), its length in bytes and its value. -/
structure LPat (V : Type) where
  key : List Nat
  blen : Nat
  value : V
deriving DecidableEq, Repr

/-- Decodes a whole byte string into labels (identity for the byte-wise variant). -/
def labelsOf (v : Variant) (bytes : List Nat) : Except Fault (List Nat) :=
  match allItems v (bytes.length + 1) ⟨bytes, 0⟩ with
  | .error e => .error e
  | .ok items => .ok (items.map (·.label))

def lpatOf (v : Variant) (p : Pat V) : Except Fault (LPat V) :=
  match labelsOf v p.key with
  | .error e => .error e
  | .ok ls => .ok ⟨ls, p.key.length, p.value⟩

def lpatsOf (v : Variant) : List (Pat V) → Except Fault (List (LPat V))
  | [] => .ok []
  | p :: ps =>
    match lpatOf v p, lpatsOf v ps with
    | .ok q, .ok qs => .ok (q :: qs)
    | .error e, _ => .error e
    | _, .error e => .error e

/-- `child_index_unchecked` at label level: unmapped labels have no child. -/
def DA.childL (da : DA V) (s label : Nat) : Except Fault (Option Nat) :=
  match da.code label with
  | none => .ok none
  | some c => da.child s c

/-- Index reached from `i` by following `childL` along `u`. -/
def DA.walkFrom (da : DA V) (i : Nat) : List Nat → Option Nat
  | [] => some i
  | c :: u =>
    match da.childL i c with
    | .ok (some j) => da.walkFrom j u
    | _ => none

def DA.walk (da : DA V) (u : List Nat) : Option Nat := da.walkFrom rootIdx u

/-- Residual patterns after reading label `c`. -/
def stepRes (R : List (LPat V)) (c : Nat) : List (LPat V) :=
  R.filterMap fun p =>
    match p.key with
    | k :: ks => if k = c then some { p with key := ks } else none
    | [] => none

/-- The labels the evaluation ranges over: all bytes, or every code point the mapper maps. -/
def DA.sigma (da : DA V) : List Nat :=
  match da.variant with
  | .bytewise => List.range 256
  | .charwise => (List.range da.mapTable.size).filter fun cp => (da.code cp).isSome

/-- Index of the longest proper suffix of `u` that is a node (walks each candidate). -/
def DA.lpsIdx (da : DA V) (u : List Nat) : Nat :=
  (((sufs u.tail).filterMap da.walk).head?).getD rootIdx

/-- The pattern ending exactly at this node, if any. -/
def terminal (R : List (LPat V)) : Option (LPat V) := R.find? (fun p => p.key.isEmpty)

/-- Output-structure clause for one node (standard and leftmost construction alike):
a pattern end has its own record whose parent is the fail state's output position;
other nodes inherit the fail state's output position. -/
def DA.outOk [DecidableEq V] (da : DA V) (st : St) (R : List (LPat V)) : Bool :=
  match da.st st.fail with
  | .error _ => false
  | .ok fs =>
    match terminal R with
    | none => st.opos == fs.opos
    | some p =>
      match da.out st.opos with
      | .error _ => false
      | .ok o => decide (o.value = p.value) && o.length == p.blen && o.parent == fs.opos

/-- T1–T3 for the subtree below the node with path `u`, index `i` and residual patterns `R`. -/
def DA.checkNodeStd [DecidableEq V] (da : DA V) (sig : List Nat) :
    Nat → Nat → List Nat → List (LPat V) → Bool
  | 0, _, _, _ => false
  | fuel + 1, i, u, R =>
    match da.st i with
    | .error _ => false
    | .ok st =>
      -- every residual head is a label of the alphabet we range over
      R.all (fun p => match p.key with | [] => true | k :: _ => sig.contains k) &&
      -- T2: fail link = longest proper suffix that is a node (root and depth-1 nodes: root)
      (u.isEmpty || st.fail == da.lpsIdx u) &&
      -- T3: outputs
      (if u.isEmpty then st.opos == 0 && (terminal R).isNone else da.outOk st R) &&
      -- T1: children mirror the trie, for every label
      sig.all fun c =>
        match da.childL i c with
        | .error _ => false
        | .ok none => (stepRes R c).isEmpty
        | .ok (some j) =>
          !(stepRes R c).isEmpty && j != rootIdx && j != deadIdx &&
            da.checkNodeStd sig fuel j (u ++ [c]) (stepRes R c)

def maxKeyLen (P : List (LPat V)) : Nat := P.foldl (fun m p => max m p.key.length) 0

/-- `TableInv` (standard kind). -/
def DA.tableInv [DecidableEq V] (da : DA V) (P : List (LPat V)) : Bool :=
  da.checkNodeStd da.sigma (maxKeyLen P + 1) rootIdx [] P

/-- All (path, index) pairs of the trie below a node (same traversal as `checkNodeStd`). -/
def DA.nodesFrom (da : DA V) (sig : List Nat) : Nat → Nat → List Nat → List (LPat V) →
    List (List Nat × Nat)
  | 0, _, _, _ => []
  | fuel + 1, i, u, R =>
    (u, i) :: sig.flatMap fun c =>
      if (stepRes R c).isEmpty then [] else
      match da.childL i c with
      | .ok (some j) => da.nodesFrom sig fuel j (u ++ [c]) (stepRes R c)
      | _ => []

def DA.nodes (da : DA V) (P : List (LPat V)) : List (List Nat × Nat) :=
  da.nodesFrom da.sigma (maxKeyLen P + 1) rootIdx [] P

/-- Strictly increasing (so duplicate-free) after sorting. -/
def strictSorted : List Nat → Bool
  | a :: b :: r => a < b && strictSorted (b :: r)
  | _ => true

def nodupFast (l : List Nat) : Bool := strictSorted (l.mergeSort (fun a b => decide (a ≤ b)))

/-- `CountInv`: the reported state count is the number of trie nodes, and distinct nodes live
at distinct indices (so that many states are really there and reachable from the root). -/
def DA.countInv (da : DA V) (P : List (LPat V)) : Bool :=
  let ns := da.nodes P
  da.numStates == ns.length && nodupFast (ns.map (·.2))

def isPow2 (n : Nat) : Bool := n != 0 && (n &&& (n - 1)) == 0

/-- Block length the variant guarantees: 256, or `alphabet_size.next_power_of_two().max(2)`. -/
def DA.blockLen (da : DA V) : Nat :=
  match da.variant with
  | .bytewise => Gen.blockLen
  | .charwise => max 2 (Nat.nextPowerOfTwo da.alphaSize)

/-- `BoundsInv`: every index stored anywhere in the tables (vacant elements included) is in
range, the length is a whole number of XOR-closed blocks, every code is below the block
length, output parents point backwards. -/
def DA.boundsInv (da : DA V) : Bool :=
  let n := da.states.size
  let bl := da.blockLen
  n != 0 && isPow2 bl && n % bl == 0 &&
  da.states.all (fun st => st.base < n && st.fail < n && st.opos ≤ da.outputs.size) &&
  (da.outputs.toList.zipIdx.all fun (o, j) => o.parent ≤ j) &&
  (match da.variant with
   | .bytewise => true
   | .charwise => da.mapTable.all (fun c => c == invalidCode || c < bl))

/-! ### Leftmost kinds: the semantic invariant (G1) + (G3) -/

/-- Patterns of `P` (label level) occurring as a prefix of `x`. -/
def prefLPats (P : List (LPat V)) (x : List Nat) : List (LPat V) :=
  P.filter (fun p => p.key ≠ [] ∧ p.key <+: x)

def longestLPat : List (LPat V) → Option (LPat V)
  | [] => none
  | p :: ps =>
    match longestLPat ps with
    | none => some p
    | some q => if q.key.length > p.key.length then some q else some p

/-- `best u`: the leftmost-longest pattern occurrence inside `u`, as (start, pattern). -/
def bestIn (P : List (LPat V)) : List Nat → Nat → Option (Nat × LPat V)
  | [], _ => none
  | c :: r, s =>
    match longestLPat (prefLPats P (c :: r)) with
    | some p => some (s, p)
    | none => bestIn P r (s + 1)

/-- Longest suffix of `x` that is a node of the automaton, with its index. -/
def DA.lsufIdx (da : DA V) (x : List Nat) : List Nat × Nat :=
  (((sufs x).filterMap fun s => (da.walk s).map fun j => (s, j)).head?).getD ([], rootIdx)

/-- (G3): the state the leftmost transition must reach from node `u` on label `c`. -/
def DA.deltaLIdx (da : DA V) (best : Option (Nat × LPat V)) (u : List Nat) (c : Nat) : Nat :=
  let t := da.lsufIdx (u ++ [c])
  match best with
  | none => t.2
  | some (s, _) => if u.length + 1 - t.1.length > s then rootIdx else t.2

/-- (G1): the output position of node `u` is the record of `best u` iff `best u` is a suffix. -/
def DA.g1Ok [DecidableEq V] (da : DA V) (best : Option (Nat × LPat V)) (st : St) (u : List Nat) : Bool :=
  match best with
  | some (s, p) =>
    if s + p.key.length = u.length then
      match da.out st.opos with
      | .error _ => false
      | .ok o => decide (o.value = p.value) && o.length == p.blen
    else st.opos == 0
  | none => st.opos == 0

def DA.checkNodeLm [DecidableEq V] (da : DA V) (P : List (LPat V)) (sig : List Nat) (probe : List Nat) :
    Nat → Nat → List Nat → List (LPat V) → Bool
  | 0, _, _, _ => false
  | fuel + 1, i, u, R =>
    match da.st i with
    | .error _ => false
    | .ok st =>
      let best := bestIn P u 0
      R.all (fun p => match p.key with | [] => true | k :: _ => sig.contains k) &&
      da.g1Ok best st u &&
      (probe.all fun c =>
        match da.nextLm i c with
        | .ok j => j == da.deltaLIdx best u c
        | .error _ => false) &&
      sig.all fun c =>
        match da.childL i c with
        | .error _ => false
        | .ok none => (stepRes R c).isEmpty
        | .ok (some j) =>
          !(stepRes R c).isEmpty && j != rootIdx && j != deadIdx &&
            da.checkNodeLm P sig probe fuel j (u ++ [c]) (stepRes R c)

/-- `LeftmostInv` for the (retained) pattern list `P`. The transition clause ranges over the
labels `probe` (all labels of the alphabet plus one unmapped label for the char-wise variant). -/
def DA.leftmostInv [DecidableEq V] (da : DA V) (P : List (LPat V)) : Bool :=
  let probe := match da.variant with
    | .bytewise => da.sigma
    | .charwise => da.mapTable.size :: da.sigma
  da.checkNodeLm P da.sigma probe (maxKeyLen P + 1) rootIdx [] P

end Daac

/-
Two more evaluated side conditions used by the Rung-1 theorems (both are trivially true of every
built automaton, but they are *checked*, not assumed): the tables have more elements than the
longest pattern has labels (so the fuel the model gives the transition loop suffices), and there
are at least as many output records as patterns (so the fuel given to `collect` suffices).
-/
import Daac.Inv
namespace Daac
variable {V : Type}

def DA.sizeInv (da : DA V) (P : List (LPat V)) : Bool :=
  decide (maxKeyLen P < da.states.size) && decide (P.length ≤ da.outputs.size)

theorem DA.sizeInv_depth {da : DA V} {P : List (LPat V)} (h : da.sizeInv P = true) :
    maxKeyLen P < da.states.size := by
  simp [DA.sizeInv] at h; exact h.1

theorem DA.sizeInv_outputs {da : DA V} {P : List (LPat V)} (h : da.sizeInv P = true) :
    P.length ≤ da.outputs.size := by
  simp [DA.sizeInv] at h; exact h.2

end Daac

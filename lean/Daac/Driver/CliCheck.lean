/-
Driver side of suite K-cli (property C16): compares the stdout of the real `daacfind` binary with
the model `Daac.Cli.run`, and checks the property itself (lines printed, text unchanged,
highlighted bytes = bytes covered by an occurrence) directly against the specification.
-/
import Daac.Driver.Parse
import Daac.Model.Cli
namespace Daac.Driver
open Daac

structure CliCase where
  id : String := ""
  profile : String := ""
  color : Bool := false
  lineNumbers : Bool := false
  noFilename : Bool := false
  files : Bool := false
  pats : Array (List Nat) := #[]
  inputs : Array (List Nat × List Nat) := #[]
  exit : Int := 0
  out : List Nat := []
  haveOut : Bool := false

def addCliLine (c : CliCase) (toks : List String) : CliCase :=
  match toks with
  | ["XCLI", id, prof, col, n, h, mode] =>
    { id := id, profile := prof, color := col == "1", lineNumbers := n == "1", noFilename := h == "1",
      files := mode == "files" }
  | ["XP", hex] => { c with pats := c.pats.push (parseHex hex) }
  | ["XF", name, content] => { c with inputs := c.inputs.push (parseHex name, parseHex content) }
  | ["XOUT", code, hex] => { c with exit := parseInt code, out := parseHex hex, haveOut := true }
  | _ => c

/-- Splits the actual output into (byte, highlighted?) pairs by interpreting the two escape
strings. -/
partial def maskOf (bs : List Nat) (hl : Bool) (acc : Array (Nat × Bool)) : Array (Nat × Bool) :=
  if Cli.ansiRed.isPrefixOf bs then maskOf (bs.drop Cli.ansiRed.length) true acc
  else if Cli.ansiReset.isPrefixOf bs then maskOf (bs.drop Cli.ansiReset.length) false acc
  else match bs with
    | [] => acc
    | b :: r => maskOf r hl (acc.push (b, hl))

def checkCli (c : CliCase) : Array String := Id.run do
  let tag := s!"case={c.id} profile={c.profile} color={if c.color then 1 else 0}"
  let mut lines : Array String := #[]
  if !c.haveOut then return #[s!"CORR suite=K-cli {tag} no output record"]
  if c.exit != 0 then
    lines := lines.push s!"PROP id=C16 {tag} exit status {c.exit} (the tool must start and run without panicking)"
    return lines
  let P : List (Pat Unit) := c.pats.toList.map fun k => ⟨k, ()⟩
  let inputs : List (Option (List Nat) × List Nat) := c.inputs.toList.map fun (name, content) =>
    (if c.files && !c.noFilename then some name else none, content)
  let model := Cli.run c.pats.toList c.color c.lineNumbers inputs
  -- property-level expectation: per input line, printed iff it contains an occurrence
  let mut expPlain : List Nat := []
  let mut expMask : List Bool := []
  for (fname, content) in inputs do
    for (line, i) in (Cli.bufLines content).zipIdx do
      let occ := specOverlapping P line
      if !occ.isEmpty then
        let pre := Cli.linePrefix fname (if c.lineNumbers then some i else none)
        expPlain := expPlain ++ pre ++ line ++ [10]
        let cover := (List.range line.length).map fun j => occ.any fun m => m.start ≤ j && j < m.stop
        expMask := expMask ++ pre.map (fun _ => false) ++ cover ++ [false]
  let actual := maskOf c.out false #[]
  let actPlain := actual.toList.map (·.1)
  if actPlain != expPlain then
    lines := lines.push s!"PROP id=C16 {tag} printed text differs: got={toHex actPlain} want={toHex expPlain}"
  else if c.color && actual.toList.map (·.2) != expMask then
    lines := lines.push s!"PROP id=C16 {tag} highlighted bytes differ from the bytes covered by an occurrence: out={toHex c.out}"
  else if !c.color && c.out != expPlain then
    lines := lines.push s!"PROP id=C16 {tag} escape sequences in uncoloured output"
  if c.out != model then
    lines := lines.push s!"CORR suite=K-cli {tag} binary={toHex c.out} model={toHex model}"
  if lines.isEmpty then lines := lines.push s!"OK {c.id}"
  let nt := c.pats.size ≥ 2 && expPlain.length > 0
  lines := lines.push s!"INFO {c.id} h={hash (c.pats.toList, c.inputs.toList, c.color, c.lineNumbers, c.noFilename, c.files)} nt={if nt then 1 else 0} pats={c.pats.size} hays={c.inputs.size} build=cli"
  return lines

end Daac.Driver

/-
Parser for the line protocol of /verif/PROTOCOL.md (trusted glue, not part of the model).
-/
import Daac.Basic
import Daac.Model.Search
namespace Daac.Driver
open Daac

def hexVal (c : Char) : Nat :=
  if '0' ≤ c ∧ c ≤ '9' then c.toNat - '0'.toNat
  else if 'a' ≤ c ∧ c ≤ 'f' then c.toNat - 'a'.toNat + 10
  else if 'A' ≤ c ∧ c ≤ 'F' then c.toNat - 'A'.toNat + 10
  else 0

def parseHex (s : String) : List Nat :=
  if s == "-" then [] else
  let rec go : List Char → List Nat
    | a :: b :: r => (hexVal a * 16 + hexVal b) :: go r
    | _ => []
  go s.toList

def hexDigit (n : Nat) : Char := if n < 10 then Char.ofNat (48 + n) else Char.ofNat (87 + n)

def toHex (l : List Nat) : String :=
  if l.isEmpty then "-" else
  String.ofList (l.flatMap fun b => [hexDigit (b / 16), hexDigit (b % 16)])

def parseInt (s : String) : Int := s.toInt?.getD 0
def parseNat (s : String) : Nat := s.toNat?.getD 0

def splitOnChar (s : String) (c : Char) : List String := (s.splitOn (String.singleton c))

/-- A result list: `none` = the search panicked. -/
abbrev Results := Option (List (Match Int))

structure RIRes where
  items : List (Match Int × Nat)
  fin : Nat

structure Hay where
  bytes : List Nat
  r : List (String × Results) := []
  ri : List (String × Option RIRes) := []
  sp : List (String × Nat) := []
  mt : Option Nat := none

structure TRow where
  state : Nat
  label : Nat
  child : Int
  next : Int      -- -2 = the implementation's loop would not terminate from this slot
  nextlm : Int

structure Case where
  id : String := ""
  variant : Variant := .bytewise
  kind : Nat := 0
  nfb : Nat := 16
  entry : String := "V"
  vtype : String := "u32"
  pats : Array (Pat Int) := #[]
  build : String := ""          -- "ok" | "err <kind>" | "panic" | "" (not reported)
  k : Option Nat := none
  ns : Option Nat := none
  st : Option (Array St) := none
  ou : Option (Array (Out Int)) := none
  mpLen : Nat := 0
  mpAlpha : Nat := 0
  mpEntries : List (Nat × Nat) := []
  hb : Option (Nat × Nat × Nat × Nat) := none
  sz : Option (List Nat) := none
  ds : Option (Nat × Nat × Nat × Nat × List Nat) := none
  perms : List (List Nat × Nat × Nat) := []
  det : Option (Nat × Nat) := none
  trows : Array TRow := #[]
  hays : Array Hay := #[]

def parseMatch (tok : String) : Match Int :=
  match splitOnChar tok ',' with
  | [a, b, c] => ⟨parseNat a, parseNat b, parseInt c⟩
  | _ => ⟨0, 0, 0⟩

def parseResults (toks : List String) : Results :=
  match toks with
  | ["PANIC"] => none
  | _ => some (toks.map parseMatch)

def parseRI (toks : List String) : Option RIRes :=
  match toks with
  | ["PANIC"] => none
  | _ =>
    let rec go : List String → List (Match Int × Nat) → RIRes
      | "E" :: n :: _, acc => ⟨acc.reverse, parseNat n⟩
      | t :: r, acc =>
        match splitOnChar t ',' with
        | [a, b, c, d] => go r ((⟨parseNat a, parseNat b, parseInt c⟩, parseNat d) :: acc)
        | _ => go r acc
      | [], acc => ⟨acc.reverse, 0⟩
    some (go toks [])

def parseSt (tok : String) : St :=
  match splitOnChar tok ',' with
  | [a, b, c, d] => ⟨parseNat a, parseNat b, parseNat c, parseNat d⟩
  | _ => ⟨0, 0, 0, 0⟩

def parseOut (tok : String) : Out Int :=
  match splitOnChar tok ',' with
  | [a, b, c] => ⟨parseInt a, parseNat b, parseNat c⟩
  | _ => ⟨0, 0, 0⟩

def updLastHay (c : Case) (f : Hay → Hay) : Case :=
  if c.hays.size = 0 then c else
  { c with hays := c.hays.modify (c.hays.size - 1) f }

/-- Folds one record into the case under construction. -/
def addLine (c : Case) (toks : List String) : Case :=
  match toks with
  | ["CASE", id, v, kind, nfb, entry, vtype] =>
    { id := id, variant := if v == "C" then .charwise else .bytewise, kind := parseNat kind,
      nfb := parseNat nfb, entry := entry, vtype := vtype }
  | ["P", hex, val] => { c with pats := c.pats.push ⟨parseHex hex, parseInt val⟩ }
  | "B" :: rest => { c with build := " ".intercalate rest }
  | ["K", k] => { c with k := some (parseNat k) }
  | ["NS", n] => { c with ns := some (parseNat n) }
  | "ST" :: _ :: rest => { c with st := some (rest.toArray.map parseSt) }
  | "OU" :: _ :: rest => { c with ou := some (rest.toArray.map parseOut) }
  | "MP" :: len :: alpha :: rest =>
    { c with mpLen := parseNat len, mpAlpha := parseNat alpha,
             mpEntries := rest.map fun t =>
               match splitOnChar t ':' with
               | [a, b] => (parseNat a, parseNat b)
               | _ => (0, 0) }
  | ["HB", a, b, s1, s2] => { c with hb := some (parseNat a, parseNat b, parseNat s1, parseNat s2) }
  | ["SZ", hex] => { c with sz := some (parseHex hex) }
  | ["DS", a, b, d, e, tr] =>
    { c with ds := some (parseNat a, parseNat b, parseNat d, parseNat e, parseHex tr) }
  | ["PERM", idx, a, b] =>
    { c with perms := c.perms ++ [((splitOnChar idx ',').map parseNat, parseNat a, parseNat b)] }
  | ["DET", a, b] => { c with det := some (parseNat a, parseNat b) }
  | ["T", s, l, ch, n, nl] =>
    { c with trows := c.trows.push ⟨parseNat s, parseNat l, parseInt ch, parseInt n, parseInt nl⟩ }
  | ["H", hex] => { c with hays := c.hays.push { bytes := parseHex hex } }
  | "R" :: m :: rest => updLastHay c fun h => { h with r := h.r ++ [(m, parseResults rest)] }
  | "RI" :: m :: rest => updLastHay c fun h => { h with ri := h.ri ++ [(m, parseRI rest)] }
  | ["SP", m, n] => updLastHay c fun h => { h with sp := h.sp ++ [(m, parseNat n)] }
  | ["MT", n] => updLastHay c fun h => { h with mt := some (parseNat n) }
  | _ => c

/-- The automaton of a case as dumped by the implementation. -/
def Case.da? (c : Case) : Option (DA Int) :=
  match c.st, c.ou with
  | some st, some ou =>
    let table : Array Nat :=
      c.mpEntries.foldl (fun t (cp, code) => if cp < t.size then t.set! cp code else t)
        (Array.replicate c.mpLen invalidCode)
    some { variant := c.variant, states := st, outputs := ou, mapTable := table,
           alphaSize := c.mpAlpha, kind := c.k.getD c.kind, numStates := c.ns.getD 0 }
  | _, _ => none

end Daac.Driver

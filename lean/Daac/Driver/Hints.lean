/-
Directed search for failing inputs inside the implementation's own tables (trusted glue, used
only after a tie broke — never a substitute for a theorem):

* `worstHay`: longest-cost path (horizon K) through the dumped automaton; a haystack on which the
  standard scan takes more than two transitions per item, if one exists within the horizon.
* `distinguish`: breadth-first search of the product of the dumped automaton with the automaton
  the model builds from the same patterns; the shortest haystacks leading to a pair of states
  whose outputs differ.

The suggestions are printed as `HINT case=<id> hay=<hex>`; ./check re-executes the real code on
them and only reports what the implementation then does.
-/
import Std.Data.HashMap
import Daac.Driver.Parse
import Daac.Model.Search
namespace Daac.Driver
open Daac

/-- UTF-8 encoding of a scalar value (bytes), identity for the byte-wise variant. -/
def encLabel (v : Variant) (c : Nat) : List Nat :=
  match v with
  | .bytewise => [c]
  | .charwise =>
    if c < 0x80 then [c]
    else if c < 0x800 then [0xC0 + c / 64, 0x80 + c % 64]
    else if c < 0x10000 then [0xE0 + c / 4096, 0x80 + (c / 64) % 64, 0x80 + c % 64]
    else [0xF0 + c / 262144, 0x80 + (c / 4096) % 64, 0x80 + (c / 64) % 64, 0x80 + c % 64]

/-- The labels worth trying: all bytes, or every mapped code point (surrogates excluded). -/
def labelsFor (da : DA Int) : Array Nat :=
  match da.variant with
  | .bytewise => Array.range 256
  | .charwise => Id.run do
    let mut out := #[]
    for i in [0:da.mapTable.size] do
      if da.mapTable[i]! != invalidCode && !(0xD800 ≤ i && i < 0xE000) then out := out.push i
    return out

/-- States reachable from the root through `next`, numbered in BFS order, with the transition
table `(target number, cost)` per label; gives up beyond `cap` states. -/
def reachTable (da : DA Int) (labels : Array Nat) (lm : Bool) (cap : Nat) :
    Option (Array Nat × Array (Array (Nat × Nat))) := Id.run do
  let mut ids : Std.HashMap Nat Nat := ({} : Std.HashMap Nat Nat).insert rootIdx 0
  let mut order : Array Nat := #[rootIdx]
  let mut table : Array (Array (Nat × Nat)) := #[]
  let mut i := 0
  while i < order.size do
    if order.size > cap then return none
    let s := order[i]!
    let mut row : Array (Nat × Nat) := Array.mkEmpty labels.size
    for l in labels do
      match (if lm then da.nextLmS s l else da.nextS s l) with
      | .ok (t, n) =>
        match ids[t]? with
        | some k => row := row.push (k, n)
        | none =>
          ids := ids.insert t order.size
          row := row.push (order.size, n)
          order := order.push t
      | .error _ => row := row.push (0, 0)
    table := table.push row
    i := i + 1
  return some (order, table)

/-- A haystack (labels) of `K` items on which the scan from the root takes the most transitions. -/
def worstPath (table : Array (Array (Nat × Nat))) (K : Nat) : Nat × List Nat := Id.run do
  let n := table.size
  let mut best : Array Nat := Array.replicate n 0
  let mut choice : Array (Array Nat) := #[]       -- per horizon, per state: label index
  for _ in [0:K] do
    let mut nb : Array Nat := Array.replicate n 0
    let mut ch : Array Nat := Array.replicate n 0
    for s in [0:n] do
      let row := table[s]!
      let mut b := 0
      let mut bi := 0
      for li in [0:row.size] do
        let (t, c) := row[li]!
        let v := c + best[t]!
        if v > b then
          b := v
          bi := li
      nb := nb.set! s b
      ch := ch.set! s bi
    best := nb
    choice := choice.push ch
  -- reconstruct from the root with the full horizon
  let mut s := 0
  let mut path : List Nat := []
  for k in [0:K] do
    let li := (choice[K - 1 - k]!)[s]!
    path := li :: path
    s := ((table[s]!)[li]!).1
  return (best[0]!, path.reverse)

def worstHay (da : DA Int) (K cap : Nat) : Option (Nat × List Nat) :=
  let labels := labelsFor da
  if labels.isEmpty then none else
  match reachTable da labels false cap with
  | none => none
  | some (_, table) =>
    let (cost, path) := worstPath table K
    if cost > 2 * K then
      some (cost, path.flatMap (fun li => encLabel da.variant labels[li]!))
    else none

/-- The output chain of a state as (value, length) pairs (bounded walk). -/
def chainOf (da : DA Int) (s : Nat) : List (Int × Nat) := Id.run do
  let mut p := match da.states[s]? with
    | some st => st.opos
    | none => 0
  let mut out : List (Int × Nat) := []
  let mut fuel := da.outputs.size + 1
  while p != 0 && fuel > 0 do
    fuel := fuel - 1
    match da.outputs[p - 1]? with
    | some o =>
      out := (o.value, o.length) :: out
      p := o.parent
    | none => p := 0
  return out.reverse

/-- Shortest haystacks (at most `want`) that drive the dumped automaton `da` and the reference
automaton `m` (built by the model from the same patterns) into states with different outputs. -/
def distinguish (da m : DA Int) (lm : Bool) (cap want : Nat) : List (List Nat) := Id.run do
  let labels := labelsFor m
  if labels.isEmpty then return []
  let mut seen : Std.HashSet (Nat × Nat) := ({} : Std.HashSet (Nat × Nat)).insert (rootIdx, rootIdx)
  let mut queue : Array (Nat × Nat × List Nat) := #[(rootIdx, rootIdx, [])]
  let mut found : List (List Nat) := []
  let mut i := 0
  while i < queue.size && found.length < want && queue.size ≤ cap do
    let (s, t, path) := queue[i]!
    i := i + 1
    for l in labels do
      let a := if lm then da.nextLmS s l else da.nextS s l
      let b := if lm then m.nextLmS t l else m.nextS t l
      match a, b with
      | .ok (s', _), .ok (t', _) =>
        if !seen.contains (s', t') then
          seen := seen.insert (s', t')
          let p' := l :: path
          let differs := chainOf da s' != chainOf m t' ||
            (lm && ((da.states[s']?.map (·.fail == deadIdx)) != (m.states[t']?.map (·.fail == deadIdx))))
          if differs then
            if found.length < want then
              found := (p'.reverse.flatMap (encLabel m.variant)) :: found
          else queue := queue.push (s', t', p')
      | .error _, .ok _ =>
        if found.length < want then found := ((l :: path).reverse.flatMap (encLabel m.variant)) :: found
      | _, _ => pure ()
  return found.reverse

end Daac.Driver

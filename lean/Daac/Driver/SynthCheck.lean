/-
Driver side of the synthetic-image stream (property C09): the harness hands arbitrary
well-formed images to `deserialize_unchecked` and reports the restored tables, the remainder and
whether re-serialising gives the same bytes; here the model's `deserialize` / `serialize` are run
on the same image and compared.
-/
import Daac.Driver.Checks
namespace Daac.Driver
open Daac

structure SynCase where
  id : String := ""
  variant : Variant := .bytewise
  vtype : String := "u32"
  img : List Nat := []
  trail : List Nat := []
  kind : Nat := 0
  ns : Nat := 0
  st : Array St := #[]
  ou : Array (Out Int) := #[]
  alpha : Nat := 0
  table : Array Nat := #[]
  res : String := ""

def addSynLine (c : SynCase) (toks : List String) : SynCase :=
  match toks with
  | ["SYC", id, v, vt] => { id := id, variant := if v == "C" then .charwise else .bytewise, vtype := vt }
  | ["SYI", hex] => { c with img := parseHex hex }
  | ["SYT", hex] => { c with trail := parseHex hex }
  | ["SYK", k, n] => { c with kind := parseNat k, ns := parseNat n }
  | "SYST" :: _ :: rest => { c with st := rest.toArray.map parseSt }
  | "SYOU" :: _ :: rest => { c with ou := rest.toArray.map parseOut }
  | "SYMP" :: a :: rest => { c with alpha := parseNat a, table := rest.toArray.map parseNat }
  | "SYR" :: rest => { c with res := " ".intercalate rest }
  | _ => c

def checkSyn (c : SynCase) : Array String := Id.run do
  let vname := match c.variant with
    | .bytewise => "B"
    | .charwise => "C"
  let tag := s!"case={c.id} variant={vname} vtype={c.vtype}"
  let mut lines : Array String := #[]
  if c.res == "PANIC" then
    lines := lines.push s!"PROP id=C09 {tag} deserialize_unchecked/serialize panicked on a well-formed image img={toHex c.img}"
  else
    match c.res.splitOn " " with
    | [restOk, reser] =>
      if restOk != "1" then lines := lines.push s!"PROP id=C09 {tag} remainder is not the trailing bytes img={toHex c.img}"
      if reser != "1" then lines := lines.push s!"PROP id=C09 {tag} re-serialising the restored automaton gives different bytes img={toHex c.img}"
    | _ => lines := lines.push s!"CORR suite=K-serial {tag} malformed SYR record"
    let S := serOf c.vtype
    match deserialize S c.variant (c.img ++ c.trail) with
    | none => lines := lines.push s!"CORR suite=K-serial {tag} model deserialiser rejects the image"
    | some (d, rest) =>
      if rest != c.trail then lines := lines.push s!"CORR suite=K-serial {tag} model leaves a different remainder"
      if serialize S d != c.img then
        lines := lines.push s!"CORR suite=K-serial {tag} model re-serialisation differs from the image"
      let same := (firstDiff d.states c.st).isNone && (firstDiff d.outputs c.ou).isNone && d.kind == c.kind &&
        d.numStates == c.ns && (c.variant == .bytewise || (d.mapTable == c.table && d.alphaSize == c.alpha))
      if !same then
        let i := (firstDiff d.states c.st).getD 0
        lines := lines.push s!"PROP id=C09 {tag} restored automaton differs from the image's content (model deserialiser): first state diff at {i}: impl={(c.st[i]?.map showSt).getD "-"} image={(d.states[i]?.map showSt).getD "-"} img={toHex c.img}"
  if lines.isEmpty then lines := lines.push s!"OK {c.id}"
  lines := lines.push s!"INFO {c.id} h={hash (c.img, c.vtype)} nt={if c.st.size + c.ou.size ≥ 2 then 1 else 0} pats=0 hays=0 build=synth"
  return lines

end Daac.Driver

/-
Per-case checks of the driver (trusted glue): compares implementation records with the model
(CORR), with the specification oracles (PROP) and evaluates the invariants (INV).
-/
import Std.Data.HashSet
import Daac.Driver.Parse
import Daac.Spec
import Daac.Model.Search
import Daac.Model.Build
import Daac.Model.Serial
import Daac.Model.Stats
import Daac.Inv
import Daac.InvExtra
import Daac.Gen.Consts
import Daac.Driver.Hints
namespace Daac.Driver
open Daac

structure Env where
  cases : Nat := 0
  built : Nat := 0
  hays : Nat := 0
  haysWithMatch : Nat := 0
  searches : Nat := 0
  trans : Nat := 0
  corr : Nat := 0
  prop : Nat := 0
  inv : Nat := 0
  invEvals : Nat := 0
  invDeepSkipped : Nat := 0
  multiBlock : Nat := 0
  errCases : Nat := 0
  /-- input distribution (sums over cases) -/
  kind0 : Nat := 0
  kind1 : Nat := 0
  kind2 : Nat := 0
  charwise : Nat := 0
  errInvalidArg : Nat := 0
  errDuplicate : Nat := 0
  errConversion : Nat := 0
  patsTotal : Nat := 0
  hayBytesTotal : Nat := 0
  elemsTotal : Nat := 0
  matchesTotal : Nat := 0
  /-- previous case (for the B/C pairs of property C08 and the nfb groups of C11) -/
  prevId : String := ""
  prevResults : List (List Nat × List (String × Results)) := []
  groupKey : String := ""
  groupResults : List (List Nat × List (String × Results)) := []
  groupNs : Nat := 0

def Env.statLine (e : Env) : String :=
  s!"STAT cases={e.cases} built={e.built} err_cases={e.errCases} haystacks={e.hays} haystacks_with_match={e.haysWithMatch} searches={e.searches} transitions_compared={e.trans} multi_block={e.multiBlock} inv_evals={e.invEvals} inv_deep_skipped={e.invDeepSkipped} corr={e.corr} prop={e.prop} inv={e.inv} kind_standard={e.kind0} kind_leftmost_longest={e.kind1} kind_leftmost_first={e.kind2} charwise={e.charwise} err_invalid_argument={e.errInvalidArg} err_duplicate_pattern={e.errDuplicate} err_invalid_conversion={e.errConversion} patterns_total={e.patsTotal} haystack_bytes_total={e.hayBytesTotal} elements_total={e.elemsTotal} matches_total={e.matchesTotal}"

def showMatches (ms : List (Match Int)) : String :=
  " ".intercalate (ms.map fun m => s!"{m.start},{m.stop},{m.value}")

def showRes : Results → String
  | none => "PANIC"
  | some ms => "[" ++ showMatches ms ++ "]"

def showExc {α} (f : α → String) : Except Fault α → String
  | .ok a => f a
  | .error e => s!"FAULT:{repr e}"

def modelResults (da : DA Int) (m : String) (h : List Nat) : Except Fault (List (Match Int × Nat) × Nat) :=
  match m with
  | "ov" => ovAll da h
  | "find" => findAll da h
  | "ns" => noSufAll da h
  | _ => lmAll da h

def specResults (P : List (Pat Int)) (kind : Nat) (m : String) (h : List Nat) : List (Match Int) :=
  match m with
  | "ov" => specOverlapping P h
  | "find" => specFind P h
  | "ns" => specNoSuffix P h
  | _ => if kind = 2 then specLF P h else specLL P h

def propOf (kind : Nat) (m : String) : String :=
  match m with
  | "ov" => "C01"
  | "find" => "C02"
  | "ns" => "C05"
  | _ => if kind = 2 then "C04" else "C03"

/-- `IsOcc` as a boolean (property C06). -/
def isOccB (P : List (Pat Int)) (h : List Nat) (m : Match Int) : Bool :=
  m.start < m.stop && m.stop ≤ h.length &&
  P.any fun p => p.value == m.value && p.key == (h.take m.stop).drop m.start

/-- Steps of the `find` iterator: a fresh root scan over every segment between reported matches. -/
def findSteps (da : DA Int) (h : List Nat) (ms : List (Match Int)) : Except Fault Nat :=
  let rec go (pos : Nat) (ms : List (Match Int)) (acc : Nat) : Except Fault Nat :=
    match ms with
    | [] =>
      match scanSteps da ((h.drop pos).length + 1) rootIdx ⟨h.drop pos, pos⟩ 0 with
      | .ok n => .ok (acc + n)
      | .error e => .error e
    | m :: rest =>
      let seg := (h.take m.stop).drop pos
      match scanSteps da (seg.length + 1) rootIdx ⟨seg, pos⟩ 0 with
      | .ok n => go m.stop rest (acc + n)
      | .error e => .error e
  go 0 ms 0

structure Acc where
  env : Env
  lines : Array String := #[]
  tag : String := ""     -- `kind=<k> variant=<B|C> vtype=<t>` of the case, copied into every verdict line

def Acc.corr (a : Acc) (suite id detail : String) : Acc :=
  let e : Env := { a.env with corr := a.env.corr + 1 }
  ⟨e, a.lines.push s!"CORR suite={suite} case={id} {a.tag} {detail}", a.tag⟩
def Acc.prop (a : Acc) (pid id detail : String) : Acc :=
  let e : Env := { a.env with prop := a.env.prop + 1 }
  ⟨e, a.lines.push s!"PROP id={pid} case={id} {a.tag} {detail}", a.tag⟩
def Acc.inv (a : Acc) (name id detail : String) : Acc :=
  let e : Env := { a.env with inv := a.env.inv + 1 }
  ⟨e, a.lines.push s!"INV name={name} case={id} {a.tag} {detail}", a.tag⟩

def numChars (h : List Nat) : Nat := (h.filter fun b => !(0x80 ≤ b && b < 0xC0)).length

/-- Search-related checks for one haystack. -/
def checkHay (c : Case) (da : DA Int) (P : List (Pat Int)) (a : Acc) (hay : Hay) : Acc := Id.run do
  let mut a := a
  let h := hay.bytes
  let hx := toHex h
  a := { a with env := { a.env with hays := a.env.hays + 1, hayBytesTotal := a.env.hayBytesTotal + h.length } }
  let mut anyMatch := false
  for (m, res) in hay.r do
    a := { a with env := { a.env with searches := a.env.searches + 1 } }
    let pid := propOf c.kind m
    let spec := specResults P c.kind m h
    let model := modelResults da m h
    if !spec.isEmpty then anyMatch := true
    a := { a with env := { a.env with matchesTotal := a.env.matchesTotal + spec.length } }
    -- implementation vs specification
    match res with
    | none => a := a.prop "C10" c.id s!"method={m} hay={hx} search panicked"
    | some ms =>
      if ms != spec then
        a := a.prop pid c.id s!"method={m} hay={hx} got=[{showMatches ms}] want=[{showMatches spec}]"
      for mm in ms do
        if !isOccB P h mm then
          a := a.prop "C06" c.id s!"method={m} hay={hx} match={mm.start},{mm.stop},{mm.value} is not an occurrence with its registered value"
    -- implementation vs model
    match model, res with
    | .ok (mm, _), some ms =>
      if mm.map (·.1) != ms then
        a := a.corr "K-search" c.id s!"method={m} hay={hx} impl=[{showMatches ms}] model=[{showMatches (mm.map (·.1))}]"
    | .error e, _ =>
      a := a.corr "K-search" c.id s!"method={m} hay={hx} model-fault={repr e}"
      a := a.prop "C07" c.id s!"method={m} hay={hx} model of the unchecked accesses faults with {repr e} on the implementation's tables"
    | _, none => a := a.corr "K-search" c.id s!"method={m} hay={hx} impl=PANIC"
  -- from_iter entry points (C12)
  for (m, ri) in hay.ri do
    let slice := (hay.r.find? (·.1 == m)).map (·.2)
    match ri, slice with
    | some r, some (some ms) =>
      if r.items.map (·.1) != ms then
        a := a.prop "C12" c.id s!"method={m} hay={hx} from_iter=[{showMatches (r.items.map (·.1))}] slice=[{showMatches ms}]"
      -- the byte-iterator entry points are entry points of C01/C02/C05 as well
      let spec := specResults P c.kind m h
      if r.items.map (·.1) != spec then
        a := a.prop (propOf c.kind m) c.id s!"method={m} entry=from_iter hay={hx} got=[{showMatches (r.items.map (·.1))}] want=[{showMatches spec}]"
      for (mm, pulled) in r.items do
        if pulled != mm.stop then
          a := a.prop "C12" c.id s!"method={m} hay={hx} match={mm.start},{mm.stop} pulled={pulled} want={mm.stop}"
      if r.fin != h.length then
        a := a.prop "C12" c.id s!"method={m} hay={hx} pulled_at_end={r.fin} want={h.length}"
      match modelResults da m h with
      | .ok (mm, fin) =>
        if mm.map (·.2) != r.items.map (·.2) || fin != r.fin then
          a := a.corr "K-search" c.id s!"method={m} hay={hx} pulled impl={r.items.map (·.2)}/{r.fin} model={mm.map (·.2)}/{fin}"
      | .error _ => pure ()
    | none, _ => a := a.prop "C12" c.id s!"method={m} hay={hx} from_iter search panicked"
    | _, _ => pure ()
  -- transition counts (C13)
  for (m, n) in hay.sp do
    if m != "lm" then
      let units := match c.variant with
        | .bytewise => h.length
        | .charwise => numChars h
      if n > 2 * units then
        a := a.prop "C13" c.id s!"method={m} hay={hx} transitions={n} bound={2 * units}"
      let ms := match (hay.r.find? (·.1 == m)).map (·.2) with
        | some (some ms) => ms
        | _ => []
      let model := if m == "find" then findSteps da h ms
        else scanSteps da (h.length + 1) rootIdx (startSrc h) 0
      match model with
      | .ok k => if k != n then a := a.corr "K-steps" c.id s!"method={m} hay={hx} impl={n} model={k}"
      | .error e => a := a.corr "K-steps" c.id s!"method={m} hay={hx} model-fault={repr e}"
  match hay.mt with
  | some 0 => a := a.prop "C14" c.id s!"hay={hx} searches from 4 threads on the shared automaton differ from the single-threaded results"
  | _ => pure ()
  if anyMatch then a := { a with env := { a.env with haysWithMatch := a.env.haysWithMatch + 1 } }
  return a

def checkTrans (c : Case) (da : DA Int) (a : Acc) : Acc := Id.run do
  let mut a := a
  let mut bad := 0
  for t in c.trows do
    a := { a with env := { a.env with trans := a.env.trans + 1 } }
    let ch : Except Fault Int := match da.code t.label with
      | none => .ok (-1)
      | some code => match da.child t.state code with
        | .ok (some i) => .ok (Int.ofNat i)
        | .ok none => .ok (-1)
        | .error e => .error e
    let nx := da.next t.state t.label
    let nl := da.nextLm t.state t.label
    let same (m : Except Fault Nat) (i : Int) : Bool :=
      match m with
      | .ok v => Int.ofNat v == i
      | .error .fuel => i == -2
      | .error _ => false
    let ok := (match ch with | .ok v => v == t.child | _ => false) && same nx t.next && same nl t.nextlm
    if !ok then
      bad := bad + 1
      if bad ≤ 3 then
        a := a.corr "K-trans" c.id s!"state={t.state} label={t.label} impl={t.child}/{t.next}/{t.nextlm} model={showExc toString ch}/{showExc toString nx}/{showExc toString nl}"
  return a

/-- Expected outcome of construction according to property C10. -/
def expectedBuild (c : Case) (P : List (Pat Int)) : List String :=
  let defects : List String :=
    (if P.isEmpty then ["invalid_argument"] else []) ++
    (if P.any (fun p => p.key.isEmpty) then ["invalid_argument"] else []) ++
    (if (P.foldl (fun (hs : Std.HashSet (List Nat)) p => hs.insert p.key) {}).size == P.length then [] else ["duplicate_pattern"])
  defects


/-- The `Ser` instance of a value-type token of the protocol. -/
def serOf (vtype : String) : Ser Int :=
  if vtype == "empty" then serEmpty
  else if vtype == "w3" then serUnsigned 3
  else match Gen.primWidths.find? (·.1 == vtype) with
    | some (_, w, true) => serSigned w
    | some (_, w, false) => serUnsigned w
    | none => serUnsigned 4

/-- Largest index that converts to the value type (`V::try_from(i)`); `none` = every index. -/
def maxIndexOf (vtype : String) : Option Nat :=
  if vtype == "empty" then none
  else match Gen.primWidths.find? (·.1 == vtype) with
    | some (_, w, true) => some (2 ^ (8 * w - 1) - 1)
    | some (_, w, false) => some (2 ^ (8 * w) - 1)
    | none => none

def showSt (s : St) : String := s!"{s.base},{s.check},{s.fail},{s.opos}"

/-- First index at which two arrays differ. -/
def firstDiff {α} [BEq α] [Inhabited α] (a b : Array α) : Option Nat := Id.run do
  if a.size != b.size then return some (min a.size b.size)
  for i in [0:a.size] do
    if a[i]! != b[i]! then return some i
  return none

instance : BEq St := ⟨fun a b => a.base == b.base && a.check == b.check && a.fail == b.fail && a.opos == b.opos⟩
instance : Inhabited (Out Int) := ⟨⟨0, 0, 0⟩⟩
instance : BEq (Out Int) := ⟨fun a b => a.value == b.value && a.length == b.length && a.parent == b.parent⟩

def errName : BuildErr → String
  | .invalidArgument => "invalid_argument"
  | .duplicatePattern => "duplicate_pattern"
  | .invalidConversion => "invalid_conversion"
  | .automatonScale => "automaton_scale"
  | .panic s => s!"panic({s})"

/-- `V::try_from(i)` for the value type of the case (`empty`: the unit-like type of the harness,
every position converts to the single value). -/
def convOf (vtype : String) (i : Nat) : Option Int :=
  if vtype == "empty" then some 0
  else match maxIndexOf vtype with
    | some mx => if i ≤ mx then some (Int.ofNat i) else none
    | none => some (Int.ofNat i)

/-- Model of the two construction entry points: `build` (positions, `Daac.buildPositions`) and
`build_with_values` (`Daac.buildDA`). -/
def modelBuild (c : Case) (LP : List (LPat Int)) : Except BuildErr (DA Int) :=
  if c.entry == "P" then
    buildPositions (convOf c.vtype) c.variant ⟨c.kind, c.nfb⟩ (LP.map (fun p => (p.key, p.blen)))
  else buildDA c.variant ⟨c.kind, c.nfb⟩ LP

/-- Suite K-build: model builder vs the implementation's outcome and tables. -/
def checkBuild (c : Case) (LP : List (LPat Int)) (a : Acc) : Acc := Id.run do
  let mut a := a
  match modelBuild c LP, c.build with
  | .error e, b =>
    let want := match e with
      | .panic _ => "panic"
      | _ => "err " ++ errName e
    if b != want then a := a.corr "K-build" c.id s!"outcome impl=[{b}] model=[{errName e}]"
  | .ok m, "ok" =>
    match c.da? with
    | none => a := a.corr "K-build" c.id "no dump"
    | some da =>
      match firstDiff m.states da.states with
      | some i => a := a.corr "K-build" c.id s!"states differ at {i}: impl={(da.states[i]?.map showSt).getD "-"} model={(m.states[i]?.map showSt).getD "-"} (sizes {da.states.size}/{m.states.size})"
      | none => pure ()
      if (firstDiff m.outputs da.outputs).isSome then a := a.corr "K-build" c.id "outputs differ"
      if m.numStates != da.numStates then a := a.corr "K-build" c.id s!"num_states impl={da.numStates} model={m.numStates}"
      if m.alphaSize != da.alphaSize || m.mapTable != da.mapTable then
        a := a.corr "K-build" c.id s!"mapper differs (alphabet impl={da.alphaSize} model={m.alphaSize}, table sizes {da.mapTable.size}/{m.mapTable.size})"
  | .ok _, b => a := a.corr "K-build" c.id s!"outcome impl=[{b}] model=[ok]"
  return a

/-- Invariants of DESIGN §3.3 evaluated on the implementation's tables. -/
def checkInvs (c : Case) (da : DA Int) (LPret : List (LPat Int)) (a : Acc) : Acc := Id.run do
  let mut a := { a with env := { a.env with invEvals := a.env.invEvals + 1 } }
  if !da.boundsInv then a := a.inv "BoundsInv" c.id "an index stored in the tables is out of range / block structure broken"
  if !da.countInv LPret then
    a := a.inv "CountInv" c.id s!"num_states={da.numStates} trie_nodes={(da.nodes LPret).length}"
  if !da.sizeInv LPret then a := a.inv "SizeInv" c.id s!"max key length {maxKeyLen LPret} / patterns {LPret.length} vs elements {da.states.size} / outputs {da.outputs.size}"
  -- the structural invariants cost |nodes| * |labels| * depth^2: very deep tries (scale cases of the
  -- `perm` profile, patterns of several hundred items) are left to K-build and the searches
  if maxKeyLen LPret > 200 then
    a := { a with env := { a.env with invDeepSkipped := a.env.invDeepSkipped + 1 } }
  else if c.kind == 0 then
    if !da.tableInv LPret then a := a.inv "TableInv" c.id "child/fail/output structure does not mirror the trie of the patterns"
  else
    if !da.leftmostInv LPret then a := a.inv "LeftmostInv" c.id "(G1)/(G3) fails at some node"
  return a

/-- Suite K-serial: model serialiser / deserialiser vs the implementation's image. -/
def checkSerial (c : Case) (da : DA Int) (a : Acc) : Acc := Id.run do
  let mut a := a
  match c.sz with
  | none => pure ()
  | some img =>
    let S := serOf c.vtype
    let m := serialize S da
    if m != img then
      let i := ((m.zip img).findIdx? (fun (x, y) => x != y)).getD (min m.length img.length)
      a := a.corr "K-serial" c.id s!"image differs at byte {i} (lengths impl={img.length} model={m.length})"
    let trail := match c.ds with
      | some (_, _, _, _, t) => t
      | none => []
    match deserialize S c.variant (img ++ trail) with
    | none => a := a.corr "K-serial" c.id "model deserialiser rejects the implementation's image"
    | some (d, rest) =>
      if rest != trail then a := a.corr "K-serial" c.id "model deserialiser leaves a different remainder"
      if (firstDiff d.states da.states).isSome || (firstDiff d.outputs da.outputs).isSome || d.kind != da.kind ||
          d.numStates != da.numStates || d.mapTable != da.mapTable || d.alphaSize != da.alphaSize then
        a := a.corr "K-serial" c.id "model deserialiser restores a different automaton"
  return a

def groupKeyOf (id : String) : String :=
  if id.startsWith "g" then (id.splitOn "_").headD "" else ""


/-- All checks for one case. -/
def checkCase (env : Env) (c : Case) : Env × Array String := Id.run do
  if c.id.isEmpty then return (env, #[])
  let vname := match c.variant with
    | .bytewise => "B"
    | .charwise => "C"
  let mut a : Acc := { env := { env with cases := env.cases + 1 },
                       tag := s!"kind={c.kind} variant={vname} vtype={c.vtype} nfb={c.nfb}" }
  a := { a with env := { a.env with
    kind0 := a.env.kind0 + (if c.kind == 0 then 1 else 0),
    kind1 := a.env.kind1 + (if c.kind == 1 then 1 else 0),
    kind2 := a.env.kind2 + (if c.kind == 2 then 1 else 0),
    charwise := a.env.charwise + (if c.variant == .charwise then 1 else 0),
    patsTotal := a.env.patsTotal + c.pats.size,
    errInvalidArg := a.env.errInvalidArg + (if c.build == "err invalid_argument" then 1 else 0),
    errDuplicate := a.env.errDuplicate + (if c.build == "err duplicate_pattern" then 1 else 0),
    errConversion := a.env.errConversion + (if c.build == "err invalid_conversion" then 1 else 0) } }
  let P := if c.vtype == "empty" then c.pats.toList.map (fun p => { p with value := 0 }) else c.pats.toList
  let defects := expectedBuild c P
  let LP : List (LPat Int) := match lpatsOf c.variant P with
    | .ok l => l
    | .error _ => []
  a := checkBuild c LP a
  -- C10: positions that do not convert to the value type
  let convDefect := c.entry == "P" && (match maxIndexOf c.vtype with
    | some mx => P.length > 0 && P.length - 1 > mx
    | none => false)
  let defects := if convDefect then "invalid_conversion" :: defects else defects
  -- C10: accept exactly the valid collections, documented error kind, no panic
  if c.build == "panic" then
    a := a.prop "C10" c.id "construction panicked"
  else if c.build.startsWith "err" then
    a := { a with env := { a.env with errCases := a.env.errCases + 1 } }
    let kind := (c.build.splitOn " ").getD 1 ""
    if kind == "automaton_scale" then
      a := a.prop "C10" c.id "automaton_scale error within the documented size limits"
    else if !defects.contains kind then
      a := a.prop "C10" c.id s!"error kind {kind} but the collection has defects {defects}"
  else if c.build == "ok" then
    if !defects.isEmpty then
      a := a.prop "C10" c.id s!"construction succeeded on an invalid collection (defects {defects})"
  match c.da? with
  | none => pure ()
  | some da =>
    a := { a with env := { a.env with elemsTotal := a.env.elemsTotal + da.states.size } }
    a := { a with env := { a.env with built := a.env.built + 1,
                                      multiBlock := a.env.multiBlock + (if da.states.size > 256 then 1 else 0) } }
    if da.kind != c.kind then a := a.prop "C09" c.id s!"match kind byte {da.kind} for kind {c.kind}"
    let Pret := if c.kind = 2 then retained P else P
    let LPret : List (LPat Int) := match lpatsOf c.variant Pret with
      | .ok l => l
      | .error _ => []
    for hay in c.hays do
      a := checkHay c da Pret a hay
    a := checkTrans c da a
    a := checkInvs c da LPret a
    a := checkSerial c da a
    -- a tie broke on this case: look inside the implementation's own tables for a failing input
    if a.lines.any (fun l => l.startsWith "CORR suite=K-build" || l.startsWith "INV ") then
      if c.kind == 0 then
        match worstHay da 48 3000 with
        | some (cost, h) =>
          a := { a with lines := a.lines.push s!"HINT case={c.id} {a.tag} why=steps cost={cost} hay={toHex h}" }
        | none => pure ()
      match modelBuild c LP with
      | .ok m =>
        for h in distinguish da m (c.kind != 0) 20000 4 do
          a := { a with lines := a.lines.push s!"HINT case={c.id} {a.tag} why=product hay={toHex h}" }
      | .error _ => pure ()
    -- C15: truthful statistics
    let want := 1 + (LPret.foldl (fun (hs : Std.HashSet (List Nat)) p => (nprefixes p.key).foldl (fun hs u => hs.insert u) hs) {}).size
    if da.numStates != want then
      a := a.prop "C15" c.id s!"num_states={da.numStates} but 1 + distinct non-empty prefixes of reportable patterns = {want}"
    -- "every one of those states is actually reachable from the root": when the count invariant fails on
    -- the implementation's table, say which half of the property fails (walk of the patterns' prefixes
    -- through the real `child` function)
    if !da.countInv LPret then
      let ns := da.nodes LPret
      if ns.length < want then
        a := a.prop "C15" c.id s!"only {ns.length} of the {want} states (root + distinct non-empty prefixes of reportable patterns) are reachable from the root in the built table; num_states={da.numStates}"
      if !nodupFast (ns.map (·.2)) then
        a := a.prop "C15" c.id s!"two distinct prefixes share one table index: fewer distinct states than num_states={da.numStates}"
    match c.hb with
    | some (heap, elems, szSt, szOut) =>
      if elems < da.numStates then a := a.prop "C15" c.id s!"num_elements={elems} < num_states={da.numStates}"
      if heap < szSt * da.numStates then a := a.prop "C15" c.id s!"heap_bytes={heap} < {szSt} * num_states"
      if heap < szSt * elems + szOut * da.outputs.size then
        a := a.prop "C15" c.id s!"heap_bytes={heap} smaller than its tables"
      if elems != da.numElements then a := a.corr "K-stats" c.id s!"num_elements impl={elems} model={da.numElements}"
      if heap != da.heapBytes szSt szOut then a := a.corr "K-stats" c.id s!"heap_bytes impl={heap} model={da.heapBytes szSt szOut}"
    | none => pure ()
    -- C14 flags
    match c.det with
    | some (x, y) => if x != 1 || y != 1 then a := a.prop "C14" c.id s!"second build from the same input differs (eq={x} ser_eq={y})"
    | none => pure ()
    for (perm, x, y) in c.perms do
      if x != 1 || y != 1 then
        a := a.prop "C14" c.id s!"build from permutation {perm} differs (eq={x} ser_eq={y})"
    -- C09 flags
    match c.ds with
    | some (eq, rest, reser, search, _) =>
      if eq != 1 then a := a.prop "C09" c.id "deserialised automaton is not equal to the original"
      if rest != 1 then a := a.prop "C09" c.id "deserialisation did not hand back exactly the trailing bytes"
      if reser != 1 then a := a.prop "C09" c.id "re-serialising the restored automaton gives different bytes"
      if search != 1 then
        a := a.prop "C09" c.id "restored automaton answers a search differently"
        a := a.prop "C06" c.id "after a serialisation round trip a search returns different matches/values"
    | none => pure ()
  -- C08: B/C pairs (ids x<n>b / x<n>c)
  let results := c.hays.toList.map fun h => (h.bytes, h.r)
  let mut env' := a.env
  if c.id.startsWith "x" && c.id.endsWith "c" && env'.prevId == (c.id.dropEnd 1).toString ++ "b" then
    for ((h1, r1), (h2, r2)) in env'.prevResults.zip results do
      if h1 == h2 then
        for ((m1, x1), (_, x2)) in r1.zip r2 do
          if x1 != x2 then
            a := a.prop "C08" c.id s!"method={m1} hay={toHex h1} bytewise={showRes x1} charwise={showRes x2}"
    env' := a.env
  -- C11: groups built from the same patterns with different num_free_blocks
  let gk := groupKeyOf c.id
  if gk != "" && gk == env'.groupKey then
    for ((h1, r1), (h2, r2)) in env'.groupResults.zip results do
      if h1 == h2 then
        for ((m1, x1), (_, x2)) in r1.zip r2 do
          if x1 != x2 then
            a := a.prop "C11" c.id s!"method={m1} hay={toHex h1} differs from the first build of the group: {showRes x2} vs {showRes x1}"
    if c.ns.getD 0 != env'.groupNs then
      a := a.prop "C11" c.id s!"num_states {c.ns.getD 0} differs from the first build of the group ({env'.groupNs})"
    env' := a.env
  else if gk != "" then
    env' := { a.env with groupKey := gk, groupResults := results, groupNs := c.ns.getD 0 }
  env' := { env' with prevId := c.id, prevResults := results }
  -- one INFO line per case: a hash of the construction input and the non-triviality flag
  -- (rule: at least two patterns sharing their first or last byte, or a multi-block table)
  let keys := P.map (·.key)
  let firsts := keys.filterMap List.head?
  let lasts := keys.filterMap List.getLast?
  let shares := firsts.eraseDups.length < firsts.length || lasts.eraseDups.length < lasts.length
  let multi := match c.st with
    | some st => st.size > 256
    | none => false
  let nt := (P.length ≥ 2 && shares) || multi
  let hsh := hash (a.tag, P.map fun p => (p.key, p.value))
  let lines := (if a.lines.isEmpty then #[s!"OK {c.id}"] else a.lines).push
    s!"INFO {c.id} h={hsh} nt={if nt then 1 else 0} pats={P.length} hays={c.hays.size} build={c.build.replace " " ":"}"
  return (env', lines)

end Daac.Driver

import Daac.Basic
import Daac.Spec
import Daac.Model.Search
import Daac.Inv
import Daac.Model.Trie
import Daac.Model.Build

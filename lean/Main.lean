/-
Driver: reads harness records (PROTOCOL.md) on stdin, runs the Lean model, the specification
oracles and the invariants on every case and prints verdict lines.
-/
import Daac.Driver.Checks
open Daac Daac.Driver

partial def loop (h : IO.FS.Stream) (out : IO.FS.Stream) (cur : Case) (env : Env) : IO Env := do
  let line ← h.getLine
  if line.isEmpty then return env
  let line := line.trimAsciiEnd.toString
  if line.isEmpty then loop h out cur env else
  let toks := line.splitOn " "
  match toks with
  | ["END"] =>
    let (env', lines) := checkCase env cur
    for l in lines do out.putStrLn l
    loop h out {} env'
  | "ERR" :: _ =>
    out.putStrLn s!"CORR suite=K-harness case={cur.id} {line}"
    loop h out cur env
  | _ => loop h out (addLine cur toks) env

def main : IO UInt32 := do
  let stdin ← IO.getStdin
  let stdout ← IO.getStdout
  let env ← loop stdin stdout {} {}
  stdout.putStrLn (env.statLine)
  return 0

/-
Driver: reads harness records (PROTOCOL.md) on stdin, runs the Lean model, the specification
oracles and the invariants on every case and prints verdict lines.
-/
import Daac.Driver.Checks
import Daac.Driver.CliCheck
import Daac.Driver.SynthCheck
open Daac Daac.Driver

partial def loop (h : IO.FS.Stream) (out : IO.FS.Stream) (cur : Case) (env : Env) (cli : CliCase := {}) (ncli : Nat := 0) (syn : SynCase := {}) : IO (Env × Nat) := do
  let line ← h.getLine
  if line.isEmpty then return (env, ncli)
  let line := line.trimAsciiEnd.toString
  if line.isEmpty then loop h out cur env cli ncli syn else
  let toks := line.splitOn " "
  match toks with
  | ["END"] =>
    let (env', lines) := checkCase env cur
    for l in lines do out.putStrLn l
    loop h out {} env' cli ncli syn
  | ["SYEND"] =>
    for l in checkSyn syn do out.putStrLn l
    loop h out cur { env with cases := env.cases + 1 } cli ncli {}
  | ["XEND"] =>
    for l in checkCli cli do out.putStrLn l
    loop h out cur env {} (ncli + 1) syn
  | t :: _ =>
    if t.startsWith "SY" then loop h out cur env cli ncli (addSynLine syn toks)
    else if t.startsWith "X" then loop h out cur env (addCliLine cli toks) ncli syn
    else if t == "ERR" then do
      out.putStrLn s!"CORR suite=K-harness case={cur.id} {line}"
      loop h out cur env cli ncli syn
    else loop h out (addLine cur toks) env cli ncli
  | [] => loop h out cur env cli ncli syn

def main : IO UInt32 := do
  let stdin ← IO.getStdin
  let stdout ← IO.getStdout
  let (env, ncli) ← loop stdin stdout {} {}
  stdout.putStrLn (env.statLine ++ s!" cli_cases={ncli}")
  return 0
